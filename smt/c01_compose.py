#!/usr/bin/env python3
"""C01 composition lemma (pure SMT): from the per-node premises decided on the real code
(C02: quorum soundness; C03: R2 'precommit only on a polka', R3+ 'a locked validator prevotes
something else only after a later polka for another value, received before it signs'),
no two blocks can both gather +2/3 precommits, for N validators (symbolic powers, < 1/3
faulty power, faulty validators support every value towards every observer) and R rounds.
Prints a JSON list of {name, expect, smt2}. Usage: c01_compose.py N=4 R=3"""
import sys, json
P = dict(a.split('=') for a in sys.argv[1:])
N, R = int(P.get('N', 4)), int(P.get('R', 3))
NONE, NIL, A, B = 0, 1, 2, 3

def gen(drop_fault_bound=False, drop_r3=False, nil_allowed=False, no_causality=False):
    s = []
    for i in range(N):
        s.append(f"(declare-const p{i} Int)(assert (>= p{i} 1))(declare-const f{i} Bool)")
        for r in range(R):
            s.append(f"(declare-const pv_{i}_{r} Int)(assert (and (>= pv_{i}_{r} 0) (<= pv_{i}_{r} 3)))")
            s.append(f"(declare-const pc_{i}_{r} Int)(assert (and (>= pc_{i}_{r} 0) (<= pc_{i}_{r} 3)))")
            s.append(f"(declare-const t_{i}_{r} Int)")
    total = "(+ " + " ".join(f"p{i}" for i in range(N)) + ")"
    s.append(f"(define-fun total () Int {total})")
    fsum = "(+ " + " ".join(f"(ite f{i} p{i} 0)" for i in range(N)) + ")"
    if not drop_fault_bound:
        s.append(f"(assert (< (* 3 {fsum}) total))")
    def polka(v, r, before=None):
        terms = []
        for i in range(N):
            c = f"(= pv_{i}_{r} {v})"
            if before is not None and not no_causality:
                c = f"(and {c} (< t_{i}_{r} {before}))"
            terms.append(f"(ite (or f{i} {c}) p{i} 0)")
        return f"(> (* 3 (+ {' '.join(terms)})) (* 2 total))"
    def commitq(v, r):
        terms = [f"(ite (or f{i} (= pc_{i}_{r} {v})) p{i} 0)" for i in range(N)]
        return f"(> (* 3 (+ {' '.join(terms)})) (* 2 total))"
    for i in range(N):
        for r in range(R):
            # R2: a correct validator precommits a block only on a polka for it in that round
            for v in (A, B):
                s.append(f"(assert (=> (and (not f{i}) (= pc_{i}_{r} {v})) {polka(v, r)}))")
        if drop_r3:
            continue
        for r0 in range(R):
            for c in (A, B):
                for r1 in range(r0 + 1, R):
                    # prevote at r1 for something other than c (nil counts unless nil_allowed)
                    other = f"(and (not (= pv_{i}_{r1} {NONE})) (not (= pv_{i}_{r1} {c}))" + (f" (not (= pv_{i}_{r1} {NIL}))" if nil_allowed else "") + ")"
                    just = []
                    for r in range(r0 + 1, r1 + 1):
                        for w in (NIL, A, B):
                            if w != c:
                                just.append(polka(w, r, before=f"t_{i}_{r1}"))
                    s.append(f"(assert (=> (and (not f{i}) (= pc_{i}_{r0} {c}) {other}) (or {' '.join(just)})))")
    bad = []
    for r1 in range(R):
        for r2 in range(R):
            bad.append(f"(and {commitq(A, r1)} {commitq(B, r2)})")
    s.append(f"(assert (or {' '.join(bad)}))")
    s.append("(check-sat)")
    return "\n".join(s)

out = [
    {"name": f"agreement-N{N}-R{R}", "expect": "unsat", "smt2": gen()},
    {"name": "sanity-one-third-faulty-breaks-it", "expect": "sat", "smt2": gen(drop_fault_bound=True)},
    {"name": "sanity-without-lock-rule-breaks-it", "expect": "sat", "smt2": gen(drop_r3=True)},
    {"name": "sanity-nil-prevote-while-locked-breaks-it", "expect": "sat", "smt2": gen(nil_allowed=True)},
    {"name": "sanity-without-causal-order-breaks-it", "expect": "sat", "smt2": gen(no_causality=True)},
]
print(json.dumps(out))
