package cstate

import (
	"testing"
	"time"

	"github.com/kardiachain/go-kardia/trie"

	"github.com/kardiachain/go-kardia/kai/kaidb/memorydb"
	"github.com/kardiachain/go-kardia/kai/rawdb"
	cmn "github.com/kardiachain/go-kardia/lib/common"
	"github.com/kardiachain/go-kardia/types"
)

func mkSet(prios []int64, pi int) *types.ValidatorSet {
	vals := make([]*types.Validator, len(prios))
	for i := range prios {
		vals[i] = &types.Validator{Address: cmn.Address{0xA0, byte(i + 1)}, VotingPower: int64(10 * (i + 1)), ProposerPriority: prios[i]}
	}
	vs := &types.ValidatorSet{Validators: vals}
	vs.Proposer = vals[pi]
	_ = vs.TotalVotingPower()
	return vs
}

func TestC14NativePrioritiesOverwritten(t *testing.T) {
	db := memorydb.New()
	mk := func(h uint64) LatestBlockState {
		return LatestBlockState{ChainID: "kai", InitialHeight: 1, LastBlockHeight: h, LastHeightValidatorsChanged: 1,
			LastHeightConsensusParamsChanged: 1, AppHash: cmn.Hash{byte(h + 1)}}
	}
	wb := func(h uint64) {
		b := types.NewBlock(&types.Header{Height: h, Time: time.Unix(1600000000+int64(h), 0).UTC()}, nil, &types.Commit{}, nil, trie.NewStackTrie(nil))
		rawdb.WriteBlock(db, b, b.MakePartSet(65536), &types.Commit{})
	}
	wb(0)
	wb(1)
	wb(2)
	g := mk(0)
	gs := mkSet([]int64{0, 0, 0}, 0)
	g.LastValidators, g.Validators, g.NextValidators = gs, gs, gs
	saveState(db, g)
	rawdb.WriteAppHash(db, 0, g.AppHash)
	s1 := mk(1)
	s1.LastValidators, s1.Validators, s1.NextValidators = gs, mkSet([]int64{5, -25, 20}, 2), mkSet([]int64{-25, -5, 30}, 2)
	saveState(db, s1)
	rawdb.WriteAppHash(db, 1, s1.AppHash)
	s2 := mk(2)
	s2.LastValidators, s2.Validators, s2.NextValidators = s1.Validators, s1.NextValidators, mkSet([]int64{10, 15, -25}, 1)
	saveState(db, s2)
	rawdb.WriteAppHash(db, 2, s2.AppHash)
	got := loadStateAtHeight(db, 2)
	if got == nil {
		t.Fatal("no state")
	}
	pr := func(vs *types.ValidatorSet) []int64 {
		var o []int64
		for _, v := range vs.Validators {
			o = append(o, v.ProposerPriority)
		}
		return o
	}
	t.Logf("saved  Last %v Cur %v Next %v", pr(s2.LastValidators), pr(s2.Validators), pr(s2.NextValidators))
	t.Logf("loaded Last %v Cur %v Next %v", pr(got.LastValidators), pr(got.Validators), pr(got.NextValidators))
	for i := range s2.Validators.Validators {
		if got.Validators.Validators[i].ProposerPriority != s2.Validators.Validators[i].ProposerPriority {
			t.Errorf("current set priority %d differs: saved %d loaded %d", i, s2.Validators.Validators[i].ProposerPriority, got.Validators.Validators[i].ProposerPriority)
		}
	}
}
