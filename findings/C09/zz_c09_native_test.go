package blockchain

import (
	"math/big"
	"testing"

	"github.com/kardiachain/go-kardia/configs"
	"github.com/kardiachain/go-kardia/kai/kaidb/memorydb"
	"github.com/kardiachain/go-kardia/kai/state"
	"github.com/kardiachain/go-kardia/kvm"
	"github.com/kardiachain/go-kardia/lib/common"
	vm "github.com/kardiachain/go-kardia/mainchain/kvm"
	"github.com/kardiachain/go-kardia/mainchain/tx_pool"
	"github.com/kardiachain/go-kardia/types"
)

// A transaction that is rejected after its gas was bought (gas limit below the intrinsic gas, or
// value not affordable after paying for gas) is skipped by commitBlock, which reverts the state -
// but the block gas pool stays reduced by the rejected transaction's whole gas limit.
func TestC09NativeRejectedTxConsumesBlockGas(t *testing.T) {
	st, _ := state.New(common.Hash{}, state.NewDatabase(memorydb.New()), nil)
	from, to := common.Address{0xF1}, common.Address{0xF2}
	st.AddBalance(from, big.NewInt(1000000000))
	price := big.NewInt(1)
	for _, c := range []struct {
		name  string
		gas   uint64
		value *big.Int
		want  error
	}{
		{"gas limit below intrinsic gas", 20000, big.NewInt(0), tx_pool.ErrIntrinsicGas},
		{"value not affordable after buying gas", 100000, big.NewInt(999990000), tx_pool.ErrInsufficientFundsForTransfer},
	} {
		msg := types.NewMessage(from, &to, st.GetNonce(from), c.value, c.gas, price, nil, true)
		machine := kvm.NewKVM(kvm.BlockContext{CanTransfer: vm.CanTransfer, Transfer: vm.Transfer, Coinbase: common.Address{0xC0}, BlockHeight: big.NewInt(1)},
			kvm.TxContext{Origin: from, GasPrice: price}, st, configs.TestChainConfig, kvm.Config{})
		gp := new(types.GasPool).AddGas(1000000)
		snap := st.Snapshot()
		_, err := ApplyMessage(machine, msg, gp)
		if err != c.want {
			t.Fatalf("%s: expected %v, got %v", c.name, c.want, err)
		}
		st.RevertToSnapshot(snap) // what commitBlock does with a failing transaction
		if gp.Gas() != 1000000 {
			t.Errorf("%s: rejected transaction (%v) consumed %d of the block gas pool", c.name, err, 1000000-gp.Gas())
		}
	}
}
