package evidence

import (
	"testing"
	"time"

	cmn "github.com/kardiachain/go-kardia/lib/common"
	"github.com/kardiachain/go-kardia/lib/crypto"
	kproto "github.com/kardiachain/go-kardia/proto/kardiachain/types"
	"github.com/kardiachain/go-kardia/types"
)

// Vote.ValidatorIndex is not part of the signed bytes and VerifyDuplicateVote does not compare
// it with the validator's position in the set, but it is part of the evidence hash (the key
// under which evidence counts as pending or committed). The same double-sign can therefore be
// presented again with another index: a different hash, still "valid" - it is not recognised as
// already committed and the validator can be punished a second time.
func TestC19NativeSameEquivocationUnderAnotherValidatorIndex(t *testing.T) {
	key, _ := crypto.GenerateKey()
	pv := types.NewDefaultPrivValidator(key)
	vals := types.NewValidatorSet([]*types.Validator{types.NewValidator(pv.GetAddress(), 10)})
	mk := func(h byte, index uint32) *types.Vote {
		vote := &types.Vote{ValidatorAddress: pv.GetAddress(), ValidatorIndex: index, Height: 7, Round: 1, Type: kproto.PrecommitType,
			BlockID:   types.BlockID{Hash: cmn.Hash{h}, PartsHeader: types.PartSetHeader{Total: 1, Hash: cmn.Hash{h, 1}}},
			Timestamp: time.Unix(1600000000, 0).UTC()}
		pb := vote.ToProto()
		if err := pv.SignVote("kai", pb); err != nil {
			t.Fatal(err)
		}
		vote.Signature = pb.Signature
		return vote
	}
	ts := time.Unix(1600000000, 0).UTC()
	genuine := types.NewDuplicateVoteEvidence(mk(1, 0), mk(2, 0), ts, vals)
	replay := types.NewDuplicateVoteEvidence(mk(1, 5), mk(2, 5), ts, vals) // the validator is at index 0
	if err := VerifyDuplicateVote(genuine, "kai", vals); err != nil {
		t.Fatalf("genuine evidence refused: %v", err)
	}
	if genuine.Hash() == replay.Hash() {
		t.Fatal("same hash")
	}
	if err := replay.ValidateBasic(); err == nil {
		if err := VerifyDuplicateVote(replay, "kai", vals); err == nil {
			t.Errorf("the same double-sign with ValidatorIndex 5 (validator is at index 0) verifies and has another hash (%x vs %x): it is not recognised as the committed evidence", replay.Hash().Bytes()[:4], genuine.Hash().Bytes()[:4])
		}
	}
}
