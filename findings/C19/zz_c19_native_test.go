package types

import (
	"testing"
	"time"

	"github.com/kardiachain/go-kardia/lib/common"
	kproto "github.com/kardiachain/go-kardia/proto/kardiachain/types"
)

// Two votes of one validator at the same height/round/type whose block ids differ only in
// PartSetHeader.Total are conflicting for BlockID.Equal (and so for VoteSet), but
// NewDuplicateVoteEvidence cannot order them (BlockID.Key ignores Total) and the evidence
// it builds fails its own ValidateBasic.
func TestC19NativeTotalOnlyConflict(t *testing.T) {
	addr := common.Address{0xA0, 1}
	vs := &ValidatorSet{Validators: []*Validator{{Address: addr, VotingPower: 10}}}
	vs.Proposer = vs.Validators[0]
	idA := BlockID{Hash: common.Hash{1}, PartsHeader: PartSetHeader{Total: 1, Hash: common.Hash{2}}}
	idB := BlockID{Hash: common.Hash{1}, PartsHeader: PartSetHeader{Total: 2, Hash: common.Hash{2}}}
	if idA.Equal(idB) {
		t.Fatal("ids are equal?")
	}
	mk := func(id BlockID) *Vote {
		return &Vote{ValidatorAddress: addr, ValidatorIndex: 0, Height: 5, Round: 0, Type: kproto.PrevoteType, BlockID: id,
			Timestamp: time.Unix(1600000000, 0).UTC(), Signature: make([]byte, 65)}
	}
	ev := NewDuplicateVoteEvidence(mk(idA), mk(idB), time.Unix(1600000000, 0).UTC(), vs)
	if ev == nil {
		t.Fatal("no evidence built")
	}
	t.Logf("keys: %q vs %q", idA.Key(), idB.Key())
	if err := ev.ValidateBasic(); err != nil {
		t.Errorf("evidence for a genuine equivocation fails basic validation: %v", err)
	}
}
