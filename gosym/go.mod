module gosym

go 1.23

require golang.org/x/tools v0.29.0

require (
	golang.org/x/mod v0.22.0 // indirect
	golang.org/x/sync v0.10.0 // indirect
)
