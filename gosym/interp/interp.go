// Copyright 2013 The Go Authors. All rights reserved.
// Use of this source code is governed by a BSD-style
// license that can be found in the LICENSE file.

// Package interp is a fork of golang.org/x/tools/go/ssa/interp (v0.29.0)
// turned into a symbolic executor: scalar values may be SMT terms, branches on
// symbolic conditions are decisions explored by re-execution, target panics
// are path outcomes, goroutines are not run, channels are queues.
package interp

import (
	"time"
	"fmt"
	"go/token"
	"go/types"
	"os"
	"runtime"
	"slices"
	"strings"

	"golang.org/x/tools/go/ssa"
)

var debugAlloc = os.Getenv("GOSYM_DEBUG_ALLOC") != ""

type continuation int

const (
	kNext continuation = iota
	kReturn
	kJump
)

type Mode uint

const (
	DisableRecover Mode = 1 << iota
	EnableTracing
)

type methodSet map[string]*ssa.Function

// Config is the per-harness engine configuration (all of it is part of the
// claim and is copied into the evidence).
type Config struct {
	Stubs        map[string]string // function name (or prefix*) -> "noop" | "zero" | "harness:<func>" | "fault"
	Init         []string          // package paths whose init is executed (in order)
	AllowGo      []string          // function-name substrings whose `go` statements are skipped
	ExpectPanics []string          // regexps; matching target panics are not violations
	MapOrders    bool              // explore all iteration orders of maps with <= 3 entries
	ConcretizeDivisors bool        // fork on the feasible values of symbolic divisors
	ConcretizeResults []string     // function-name suffixes whose (integer) result is case-split on its feasible values
	Params       map[string]int
	Lim          Limits
	Trace        bool
	Concrete     []string // concrete nondet values (translator validation / replay)
}

// State of one interpreter instance (one worker).
type interpreter struct {
	prog               *ssa.Program
	globals            map[*ssa.Global]*value
	mode               Mode
	runtimeErrorString types.Type
	sizes              types.Sizes

	cfg       *Config
	pc        *pathCtx
	actions   map[*ssa.Function]*fnAction
	initDone  map[*ssa.Package]bool
	initAllow map[string]bool
	inInit    int
	depth     int
	funcsSeen map[*ssa.Function]bool
	curFrame  *frame
	poisoned  []string
	forceLazy int
	inHook    int
	namedCache map[string]types.Type
	initGlobals map[*ssa.Package]map[*ssa.Global]bool
}

type fnAction struct {
	concResult bool
	intrinsic func(fr *frame, args []value) value
	replace   *ssa.Function
	noop      bool
	fault     string
}

type deferred struct {
	fn    value
	args  []value
	instr *ssa.Defer
	tail  *deferred
}

type frame struct {
	i                *interpreter
	caller           *frame
	fn               *ssa.Function
	block, prevBlock *ssa.BasicBlock
	env              map[ssa.Value]value
	locals           []value
	defers           *deferred
	result           value
	panicking        bool
	panic            interface{}
	phitemps         []value
	visits           []int32
	cur              ssa.Instruction
	callpos          token.Pos
}

func (fr *frame) get(key ssa.Value) value {
	switch key := key.(type) {
	case nil:
		return nil
	case *ssa.Function, *ssa.Builtin:
		return key
	case *ssa.Const:
		return constValue(key)
	case *ssa.Global:
		return fr.i.global(key)
	}
	if r, ok := fr.env[key]; ok {
		return r
	}
	panic(engineFault{fmt.Sprintf("get: no value for %T: %v", key, key.Name())})
}

func (i *interpreter) global(g *ssa.Global) *value {
	if r, ok := i.globals[g]; ok {
		return r
	}
	if g.Pkg != nil && !i.initAllow[g.Pkg.Pkg.Path()] && i.needsInit(g) {
		panic(engineFault{"access to global " + g.String() + " whose package initialiser is not executed (add the package to the init whitelist)"})
	}
	if g.Pkg != nil && lazyInit[g.Pkg.Pkg.Path()] && !i.initDone[g.Pkg] && i.initAllow[g.Pkg.Pkg.Path()] {
		// table-only standard packages are initialised on first use of one of their globals
		if f := g.Pkg.Func("init"); f != nil {
			i.forceLazy++
			i.runPkgInit(nil, f)
			i.forceLazy--
			if r, ok := i.globals[g]; ok {
				return r
			}
		}
	}
	cell := zero(deref(g.Type()))
	i.globals[g] = &cell
	return &cell
}

// lazyInit lists standard packages whose initialiser only fills the package's own tables (no
// registration in, or dependence on, other packages' state): running it at the first access to
// one of the package's globals is indistinguishable from running it at program start.
var lazyInit = map[string]bool{"unicode": true, "strconv": true, "math": true}

// needsInit reports whether the package initialiser refers to g (i.e. g has an initialiser).
func (i *interpreter) needsInit(g *ssa.Global) bool {
	set, ok := i.initGlobals[g.Pkg]
	if !ok {
		set = make(map[*ssa.Global]bool)
		seen := make(map[*ssa.Function]bool)
		var scan func(f *ssa.Function)
		scan = func(f *ssa.Function) {
			if f == nil || seen[f] {
				return
			}
			seen[f] = true
			var ops []*ssa.Value
			for _, b := range f.Blocks {
				for _, in := range b.Instrs {
					ops = in.Operands(ops[:0])
					for _, op := range ops {
						if gg, ok := (*op).(*ssa.Global); ok {
							set[gg] = true
						}
					}
					// user-written init functions and anonymous initialiser closures
					if c, ok := in.(*ssa.Call); ok {
						if callee := c.Call.StaticCallee(); callee != nil && callee.Pkg == g.Pkg &&
							(strings.HasPrefix(callee.Name(), "init#") || callee.Parent() != nil) {
							scan(callee)
						}
					}
				}
			}
			for _, an := range f.AnonFuncs {
				scan(an)
			}
		}
		scan(g.Pkg.Func("init"))
		if i.initGlobals == nil {
			i.initGlobals = make(map[*ssa.Package]map[*ssa.Global]bool)
		}
		i.initGlobals[g.Pkg] = set
	}
	return set[g]
}

func deref(t types.Type) types.Type {
	if p, ok := t.Underlying().(*types.Pointer); ok {
		return p.Elem()
	}
	panic(engineFault{fmt.Sprintf("deref of non-pointer %s", t)})
}

func (fr *frame) pos() string {
	if fr == nil {
		return "?"
	}
	p := token.NoPos
	if fr.cur != nil {
		p = fr.cur.Pos()
	}
	if p == token.NoPos && fr.block != nil {
		// nearest instruction with a position
		for _, in := range fr.block.Instrs {
			if in.Pos() != token.NoPos {
				p = in.Pos()
				break
			}
		}
	}
	if p == token.NoPos {
		p = fr.fn.Pos()
	}
	ps := fr.i.prog.Fset.Position(p)
	f := ps.Filename
	if k := strings.Index(f, "/repo/"); k >= 0 {
		f = f[k+6:]
	} else if k := strings.LastIndex(f, "/"); k >= 0 {
		f = f[k+1:]
	}
	return fmt.Sprintf("%s:%d", f, ps.Line)
}

func (fr *frame) stack() []string {
	var out []string
	for f := fr; f != nil && len(out) < 24; f = f.caller {
		out = append(out, f.fn.String()+" "+f.pos())
	}
	return out
}

// rtPanic raises a Go runtime error in the target program.
func rtPanic(fr *frame, msg string) {
	var t types.Type
	var site string
	var stack []string
	if fr != nil {
		t = fr.i.runtimeErrorString
		site = fr.fn.String() + " " + fr.pos()
		stack = fr.stack()
	}
	panic(targetPanic{v: iface{t, "runtime error: " + msg}, runtime: true, site: site, stack: stack})
}

func (fr *frame) runDefer(d *deferred) {
	var ok bool
	defer func() {
		if !ok {
			r := recover()
			if !isTargetPanic(r) {
				panic(r)
			}
			fr.panicking = true
			fr.panic = r
		}
	}()
	call(fr.i, fr, d.instr.Pos(), d.fn, d.args)
	ok = true
}

func isTargetPanic(r interface{}) bool {
	_, ok := r.(targetPanic)
	return ok
}

func (fr *frame) runDefers() {
	for d := fr.defers; d != nil; d = d.tail {
		fr.runDefer(d)
	}
	fr.defers = nil
	if fr.panicking {
		panic(fr.panic)
	}
}

func lookupMethod(i *interpreter, typ types.Type, meth *types.Func) *ssa.Function {
	return i.prog.LookupMethod(typ, meth.Pkg(), meth.Name())
}

func (fr *frame) cond(v value) bool {
	switch c := v.(type) {
	case bool:
		return c
	case *Term:
		return fr.i.pc.branch(c)
	}
	panic(engineFault{fmt.Sprintf("condition of type %T at %s", v, fr.pos())})
}

func visitInstr(fr *frame, instr ssa.Instruction) continuation {
	fr.cur = instr
	switch instr := instr.(type) {
	case *ssa.DebugRef:
		// no-op

	case *ssa.UnOp:
		fr.env[instr] = unop(fr, instr, fr.get(instr.X))

	case *ssa.BinOp:
		fr.env[instr] = binop(fr, instr.Op, instr.X.Type(), instr.Y.Type(), fr.get(instr.X), fr.get(instr.Y))

	case *ssa.Call:
		fn, args := prepareCall(fr, &instr.Call)
		fr.env[instr] = call(fr.i, fr, instr.Pos(), fn, args)

	case *ssa.ChangeInterface:
		fr.env[instr] = fr.get(instr.X)

	case *ssa.ChangeType:
		fr.env[instr] = fr.get(instr.X)

	case *ssa.Convert:
		fr.env[instr] = conv(fr, instr.Type(), instr.X.Type(), fr.get(instr.X))

	case *ssa.SliceToArrayPointer:
		fr.env[instr] = sliceToArrayPointer(fr, instr.Type(), instr.X.Type(), fr.get(instr.X))

	case *ssa.MakeInterface:
		fr.env[instr] = iface{t: instr.X.Type(), v: fr.get(instr.X)}

	case *ssa.Extract:
		fr.env[instr] = fr.get(instr.Tuple).(tuple)[instr.Index]

	case *ssa.Slice:
		fr.env[instr] = slice(fr, fr.get(instr.X), fr.get(instr.Low), fr.get(instr.High), fr.get(instr.Max),
			instr)

	case *ssa.Return:
		switch len(instr.Results) {
		case 0:
		case 1:
			fr.result = fr.get(instr.Results[0])
		default:
			var res []value
			for _, r := range instr.Results {
				res = append(res, fr.get(r))
			}
			fr.result = tuple(res)
		}
		fr.block = nil
		return kReturn

	case *ssa.RunDefers:
		fr.runDefers()

	case *ssa.Panic:
		panic(targetPanic{v: fr.get(instr.X), site: fr.fn.String() + " " + fr.pos(), stack: fr.stack()})

	case *ssa.Send:
		chanSend(fr, fr.get(instr.Chan), fr.get(instr.X))

	case *ssa.Store:
		storeAddr(fr, deref(instr.Addr.Type()), fr.get(instr.Addr), fr.get(instr.Val))

	case *ssa.If:
		succ := 1
		if fr.cond(fr.get(instr.Cond)) {
			succ = 0
		}
		fr.prevBlock, fr.block = fr.block, fr.block.Succs[succ]
		return kJump

	case *ssa.Jump:
		fr.prevBlock, fr.block = fr.block, fr.block.Succs[0]
		return kJump

	case *ssa.Defer:
		fn, args := prepareCall(fr, &instr.Call)
		defers := &fr.defers
		if into := fr.get(instr.DeferStack); into != nil {
			defers = into.(**deferred)
		}
		*defers = &deferred{fn: fn, args: args, instr: instr, tail: *defers}

	case *ssa.Go:
		name := ""
		if f := instr.Call.StaticCallee(); f != nil {
			name = f.String()
		} else {
			name = instr.Call.String()
		}
		ok := false
		for _, a := range fr.i.cfg.AllowGo {
			if a == "*" || strings.Contains(name, a) || strings.Contains(fr.fn.String(), a) {
				ok = true
			}
		}
		if !ok {
			panic(engineFault{"go statement (" + name + ") in " + fr.fn.String() + " " + fr.pos()})
		}

	case *ssa.MakeChan:
		n := fr.concreteInt(fr.get(instr.Size), "chan size")
		fr.env[instr] = &chanQ{cap: int(n)}

	case *ssa.Alloc:
		var addr *value
		if instr.Heap {
			addr = new(value)
			fr.env[instr] = addr
		} else {
			addr = fr.env[instr].(*value)
		}
		*addr = zero(deref(instr.Type()))
		if debugAlloc {
			if a, ok := deref(instr.Type()).Underlying().(*types.Array); ok && a.Len() > 512 {
				fmt.Fprintf(os.Stderr, "big alloc %d in %s\n", a.Len(), fr.fn)
			}
		}

	case *ssa.MakeSlice:
		fr.env[instr] = makeSlice(fr, instr)

	case *ssa.MakeMap:
		fr.env[instr] = newSymMap(instr.Type().Underlying().(*types.Map).Key())

	case *ssa.Range:
		fr.env[instr] = rangeIter(fr, fr.get(instr.X), instr.X.Type())

	case *ssa.Next:
		fr.env[instr] = fr.get(instr.Iter).(iter).next()

	case *ssa.FieldAddr:
		p := fr.get(instr.X).(*value)
		if p == nil {
			rtPanic(fr, "invalid memory address or nil pointer dereference")
		}
		fr.env[instr] = &(*p).(structure)[instr.Field]

	case *ssa.Field:
		fr.env[instr] = fr.get(instr.X).(structure)[instr.Field]

	case *ssa.IndexAddr:
		fr.env[instr] = indexAddr(fr, instr, fr.get(instr.X), fr.get(instr.Index))

	case *ssa.Index:
		fr.env[instr] = index(fr, instr, fr.get(instr.X), fr.get(instr.Index))

	case *ssa.Lookup:
		fr.env[instr] = lookup(fr, instr, fr.get(instr.X), fr.get(instr.Index))

	case *ssa.MapUpdate:
		m := fr.get(instr.Map).(*symMap)
		if m == nil {
			panic(targetPanic{v: iface{fr.i.runtimeErrorString, "assignment to entry in nil map"}, runtime: true,
				site: fr.fn.String() + " " + fr.pos(), stack: fr.stack()})
		}
		m.insert(fr, fr.get(instr.Key), fr.get(instr.Value))

	case *ssa.TypeAssert:
		fr.env[instr] = typeAssert(fr, instr, fr.get(instr.X).(iface))

	case *ssa.MakeClosure:
		var bindings []value
		for _, binding := range instr.Bindings {
			bindings = append(bindings, fr.get(binding))
		}
		fr.env[instr] = &closure{instr.Fn.(*ssa.Function), bindings}

	case *ssa.Phi:
		panic(engineFault{"unreachable phi"})

	case *ssa.Select:
		fr.env[instr] = doSelect(fr, instr)

	default:
		panic(engineFault{fmt.Sprintf("unexpected instruction: %T", instr)})
	}
	return kNext
}

func prepareCall(fr *frame, call *ssa.CallCommon) (fn value, args []value) {
	v := fr.get(call.Value)
	if call.Method == nil {
		fn = v
	} else {
		recv := v.(iface)
		if recv.t == nil {
			rtPanic(fr, "invalid memory address or nil pointer dereference (method "+call.Method.Name()+" invoked on nil interface)")
		}
		if f := lookupMethod(fr.i, recv.t, call.Method); f == nil {
			panic(engineFault{fmt.Sprintf("method set for dynamic type %v does not contain %s", recv.t, call.Method)})
		} else {
			fn = f
		}
		args = append(args, recv.v)
	}
	for _, arg := range call.Args {
		args = append(args, fr.get(arg))
	}
	return
}

func call(i *interpreter, caller *frame, callpos token.Pos, fn value, args []value) value {
	switch fn := fn.(type) {
	case *ssa.Function:
		if fn == nil {
			rtPanic(caller, "invalid memory address or nil pointer dereference (call of nil func)")
		}
		return callSSA(i, caller, callpos, fn, args, nil)
	case *closure:
		return callSSA(i, caller, callpos, fn.Fn, args, fn.Env)
	case *ssa.Builtin:
		return callBuiltin(caller, callpos, fn, args)
	case poison:
		panic(engineFault{"call of function value from failed initialiser: " + fn.why})
	}
	panic(engineFault{fmt.Sprintf("cannot call %T", fn)})
}

func zeroResult(fn *ssa.Function) value {
	res := fn.Signature.Results()
	switch res.Len() {
	case 0:
		return nil
	case 1:
		return zero(res.At(0).Type())
	}
	return zero(res)
}

func callSSA(i *interpreter, caller *frame, callpos token.Pos, fn *ssa.Function, args []value, env []value) value {
	fr := &frame{i: i, caller: caller, fn: fn, callpos: callpos}
	if fn.Parent() == nil {
		act := i.action(fn)
		if act != nil {
			switch {
			case act.fault != "":
				panic(engineFault{act.fault + " (called from " + caller.fn.String() + " " + caller.pos() + ")"})
			case act.noop:
				return zeroResult(fn)
			case act.replace != nil:
				return callSSA(i, caller, callpos, act.replace, args, nil)
			case act.intrinsic != nil:
				fr.cur = nil
				return act.intrinsic(fr, args)
			case act.concResult:
				i.actions[fn] = nil
				r := callSSA(i, caller, callpos, fn, args, env)
				i.actions[fn] = act
				if tm, ok := r.(*Term); ok {
					v := i.pc.concretize(tm, 70, "result of "+fn.String())
					return lower(fn.Signature.Results().At(0).Type(), i.pc.constLike(tm, v))
				}
				return r
			}
		}
		if fn.Blocks == nil {
			panic(engineFault{"no code for function: " + fn.String() + " (called from " + callerName(caller) + ")"})
		}
		if fn.Name() == "init" && fn.Synthetic != "" && fn.Pkg != nil && len(args) == 0 {
			return i.runPkgInit(caller, fn)
		}
	}
	if fn.TypeParams().Len() > 0 && len(fn.TypeArgs()) == 0 {
		panic(engineFault{"uninstantiated generic function " + fn.String()})
	}
	i.depth++
	if i.depth > i.cfg.Lim.MaxDepth {
		panic(pathAbort{"bound", "call depth in " + fn.String()})
	}
	defer func() { i.depth-- }()
	if i.funcsSeen != nil && !i.funcsSeen[fn] {
		i.funcsSeen[fn] = true
	}
	if i.cfg.Trace {
		fmt.Fprintf(os.Stderr, "%*sEntering %s\n", i.depth, "", fn)
	}

	fr.env = make(map[ssa.Value]value)
	fr.block = fn.Blocks[0]
	fr.locals = make([]value, len(fn.Locals))
	for k, l := range fn.Locals {
		fr.locals[k] = zero(deref(l.Type()))
		fr.env[l] = &fr.locals[k]
	}
	for k, p := range fn.Params {
		fr.env[p] = args[k]
	}
	for k, fv := range fn.FreeVars {
		fr.env[fv] = env[k]
	}
	for fr.block != nil {
		runFrame(fr)
	}
	return fr.result
}

func callerName(fr *frame) string {
	if fr == nil {
		return "<top>"
	}
	return fr.fn.String() + " " + fr.pos()
}

// runPkgInit runs (or skips) a package initialiser according to the whitelist.
func (i *interpreter) runPkgInit(caller *frame, fn *ssa.Function) value {
	pkg := fn.Pkg
	if i.initDone[pkg] {
		return nil
	}
	if lazyInit[pkg.Pkg.Path()] && i.forceLazy == 0 {
		return nil
	}
	i.initDone[pkg] = true
	if !i.initAllow[pkg.Pkg.Path()] {
		return nil
	}
	i.inInit++
	defer func() { i.inInit-- }()
	fr := &frame{i: i, caller: caller, fn: fn}
	fr.env = make(map[ssa.Value]value)
	fr.block = fn.Blocks[0]
	fr.locals = make([]value, len(fn.Locals))
	for k, l := range fn.Locals {
		fr.locals[k] = zero(deref(l.Type()))
		fr.env[l] = &fr.locals[k]
	}
	var t0 time.Time
	if initProf {
		t0 = time.Now()
	}
	for fr.block != nil {
		runInitFrame(fr)
	}
	if initProf {
		fmt.Fprintf(os.Stderr, "initprof %s %v (nested included)\n", pkg.Pkg.Path(), time.Since(t0))
	}
	return nil
}

var initProf = os.Getenv("GOSYM_INITPROF") != ""

// runInitFrame is runFrame for synthetic package initialisers: a call that
// the engine cannot execute leaves a poison value instead of failing the run.
func runInitFrame(fr *frame) {
	for {
		nonPhis := executePhis(fr)
		for _, instr := range nonPhis {
			if c, ok := instr.(*ssa.Call); ok {
				func() {
					defer func() {
						if r := recover(); r != nil {
							switch r := r.(type) {
							case pathAbort:
								if r.kind != "bound" {
									panic(r)
								}
								fr.env[c] = poison{"initialiser exceeds engine bounds: " + r.msg}
								fr.i.poisoned = append(fr.i.poisoned, c.String()+": "+r.msg)
							case engineFault:
								fr.env[c] = poison{r.msg}
								fr.i.poisoned = append(fr.i.poisoned, c.String()+": "+r.msg)
							case targetPanic:
								fr.env[c] = poison{"panic in initialiser: " + r.String()}
								fr.i.poisoned = append(fr.i.poisoned, c.String()+": panic "+r.String())
							case runtime.Error:
								fr.env[c] = poison{"engine error in initialiser: " + r.Error()}
								fr.i.poisoned = append(fr.i.poisoned, c.String()+": "+r.Error())
							default:
								panic(r)
							}
						}
					}()
					fr.cur = instr
					fn, args := prepareCall(fr, &c.Call)
					fr.env[c] = call(fr.i, fr, c.Pos(), fn, args)
				}()
				continue
			}
			if st, ok := instr.(*ssa.Store); ok {
				// storing a poisoned value poisons the cell
				if p, isP := fr.get(st.Val).(poison); isP {
					if g, isG := st.Addr.(*ssa.Global); isG {
						p = poison{"global " + g.String() + ": " + p.why}
					}
					*(fr.get(st.Addr).(*value)) = p
					continue
				}
			}
			var k continuation
			func() {
				defer func() {
					if r := recover(); r != nil {
						if _, isAbort := r.(pathAbort); isAbort {
							panic(r)
						}
						// an instruction operating on poison: propagate poison
						if v, isVal := instr.(ssa.Value); isVal {
							fr.env[v] = poison{fmt.Sprint(r)}
							k = kNext
							return
						}
						switch instr.(type) {
						case *ssa.If, *ssa.Jump, *ssa.Return, *ssa.Panic:
							// control flow of the initialiser depends on something the engine could
							// not run: give up on this package; every global with an initialiser
							// that is still untouched becomes poison.
							why := fmt.Sprint(r)
							fr.i.poisoned = append(fr.i.poisoned, fr.fn.String()+": control flow on unavailable value: "+why)
							probe := &ssa.Global{}
							_ = probe
							for _, m := range fr.fn.Pkg.Members {
								if g, ok := m.(*ssa.Global); ok && fr.i.needsInit(g) {
									if _, touched := fr.i.globals[g]; !touched {
										cell := value(poison{"initialiser of " + g.String() + " not reached: " + why})
										fr.i.globals[g] = &cell
									}
								}
							}
							fr.block = nil
							k = kReturn
							return
						}
						k = kNext
					}
				}()
				k = visitInstr(fr, instr)
			}()
			if k == kReturn {
				return
			}
			if k == kJump {
				break
			}
		}
		if fr.block == nil {
			return
		}
	}
}

func runFrame(fr *frame) {
	defer func() {
		if fr.block == nil {
			return // normal return
		}
		r := recover()
		if !isTargetPanic(r) {
			// engine-level: never visible to the target's defers. Inside a package initialiser the
			// failed call is replaced by poison and execution goes on, so the frames being abandoned
			// release what they hold (deferred Unlock etc.), as they would on a panic; recover() in
			// those deferred calls sees nothing.
			if fr.i.inInit > 0 && r != nil {
				for d := fr.defers; d != nil; d = d.tail {
					func() {
						defer func() { recover() }()
						fr.runDefer(d)
					}()
				}
				fr.defers = nil
			}
			panic(r)
		}
		fr.panicking = true
		fr.panic = r
		fr.runDefers()
		fr.block = fr.fn.Recover
		if fr.block == nil {
			// recovered in a function without named results: return zero values
			fr.result = zeroResult(fr.fn)
		}
	}()

	pc := fr.i.pc
	for {
		if fr.prevBlock != nil {
			if fr.visits == nil {
				fr.visits = make([]int32, len(fr.fn.Blocks))
			}
			fr.visits[fr.block.Index]++
			if int(fr.visits[fr.block.Index]) > fr.i.cfg.Lim.Unwind {
				panic(pathAbort{"bound", fmt.Sprintf("unwind bound %d in %s %s", fr.i.cfg.Lim.Unwind, fr.fn, fr.pos())})
			}
		}
		nonPhis := executePhis(fr)
		if pc != nil {
			pc.steps += len(nonPhis)
			if pc.steps > pc.lim.MaxSteps {
				panic(pathAbort{"bound", "max steps per path"})
			}
		}
		for _, instr := range nonPhis {
			if fr.i.cfg.Trace {
				if v, ok := instr.(ssa.Value); ok {
					fmt.Fprintln(os.Stderr, "\t", v.Name(), "=", instr)
				} else {
					fmt.Fprintln(os.Stderr, "\t", instr)
				}
			}
			if visitInstr(fr, instr) == kReturn {
				return
			}
		}
	}
}

func executePhis(fr *frame) []ssa.Instruction {
	firstNonPhi := -1
	for i, instr := range fr.block.Instrs {
		if _, ok := instr.(*ssa.Phi); !ok {
			firstNonPhi = i
			break
		}
	}
	nonPhis := fr.block.Instrs[firstNonPhi:]
	if firstNonPhi > 0 {
		phis := fr.block.Instrs[:firstNonPhi]
		predIndex := slices.Index(fr.block.Preds, fr.prevBlock)
		fr.phitemps = fr.phitemps[:0]
		for _, phi := range phis {
			phi := phi.(*ssa.Phi)
			fr.phitemps = append(fr.phitemps, fr.get(phi.Edges[predIndex]))
		}
		for i, phi := range phis {
			fr.env[phi.(*ssa.Phi)] = fr.phitemps[i]
		}
	}
	return nonPhis
}

func doRecover(caller *frame) value {
	if caller != nil && !caller.panicking &&
		caller.caller != nil && caller.caller.panicking {
		caller.caller.panicking = false
		p := caller.caller.panic
		caller.caller.panic = nil
		switch p := p.(type) {
		case targetPanic:
			return p.v
		default:
			panic(engineFault{fmt.Sprintf("unexpected panic type %T in target call to recover()", p)})
		}
	}
	return iface{}
}

// NewInterpreter creates a worker-local interpreter over prog.
func NewInterpreter(prog *ssa.Program, cfg *Config) *interpreter {
	i := &interpreter{
		prog:    prog,
		sizes:   &types.StdSizes{WordSize: 8, MaxAlign: 8},
		cfg:     cfg,
		actions: make(map[*ssa.Function]*fnAction),
	}
	runtimePkg := prog.ImportedPackage("runtime")
	if runtimePkg == nil {
		panic("ssa.Program doesn't include runtime package")
	}
	i.runtimeErrorString = runtimePkg.Type("errorString").Object().Type()
	i.initAllow = make(map[string]bool)
	for _, p := range cfg.Init {
		i.initAllow[p] = true
	}
	return i
}

// resetPath prepares fresh global state for a new path and runs whitelisted inits.
func (i *interpreter) resetPath() {
	i.globals = make(map[*ssa.Global]*value)
	i.initDone = make(map[*ssa.Package]bool)
	i.depth = 0
	i.poisoned = nil
	for _, p := range i.cfg.Init {
		pkg := i.prog.ImportedPackage(p)
		if pkg == nil {
			panic(engineFault{"init whitelist: package not in program: " + p})
		}
		if f := pkg.Func("init"); f != nil {
			i.runPkgInit(nil, f)
		}
	}
}
