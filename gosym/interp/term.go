package interp

// Hash-consed SMT terms (bit-vectors, booleans, mathematical integers) with a
// local simplifier, an SMT-LIB2 printer and a concrete evaluator.

import (
	"fmt"
	"math/big"
	"strings"
)

type Op uint8

const (
	OpConst Op = iota
	OpVar
	// bit-vector
	OpAdd
	OpSub
	OpMul
	OpUDiv
	OpURem
	OpSDiv
	OpSRem
	OpAnd
	OpOr
	OpXor
	OpNot
	OpNeg
	OpShl
	OpLShr
	OpAShr
	OpConcat
	OpExtract // p1=hi p2=lo
	OpZExt    // p1=extra bits
	OpSExt    // p1=extra bits
	OpIte
	// predicates
	OpEq
	OpULt
	OpULe
	OpSLt
	OpSLe
	// bool
	OpBAnd
	OpBOr
	OpBNot
	// int
	OpIAdd
	OpISub
	OpIMul
	OpIDiv // SMT div (floor for positive divisor, euclidean)
	OpIMod // SMT mod
	OpINeg
	OpIAbs
	OpILe
	OpILt
	OpBV2Nat
	OpInt2BV // sort width = target
)

var opNames = map[Op]string{
	OpAdd: "bvadd", OpSub: "bvsub", OpMul: "bvmul", OpUDiv: "bvudiv", OpURem: "bvurem",
	OpSDiv: "bvsdiv", OpSRem: "bvsrem", OpAnd: "bvand", OpOr: "bvor", OpXor: "bvxor",
	OpNot: "bvnot", OpNeg: "bvneg", OpShl: "bvshl", OpLShr: "bvlshr", OpAShr: "bvashr",
	OpConcat: "concat", OpIte: "ite", OpEq: "=", OpULt: "bvult", OpULe: "bvule",
	OpSLt: "bvslt", OpSLe: "bvsle", OpBAnd: "and", OpBOr: "or", OpBNot: "not",
	OpIAdd: "+", OpISub: "-", OpIMul: "*", OpIDiv: "div", OpIMod: "mod", OpINeg: "-",
	OpIAbs: "abs", OpILe: "<=", OpILt: "<", OpBV2Nat: "bv2nat",
}

// Sort encoding: >0 = bit-vector width, 0 = Bool, -1 = Int.
const (
	SortBool = 0
	SortInt  = -1
)

type Term struct {
	op     Op
	sort   int
	args   []*Term
	val    *big.Int // OpConst (Bool: 0/1)
	name   string   // OpVar
	p1, p2 int
	id     int
	st     *TermStore
}

func (t *Term) IsConst() bool { return t.op == OpConst }
func (t *Term) Sort() int     { return t.sort }

type termKey struct {
	op      Op
	sort    int
	a, b, c int
	p1, p2  int
	s       string
}

type TermStore struct {
	tab   map[termKey]*Term
	terms []*Term
	vars  []*Term
	tru   *Term
	fls   *Term
	// evaluation cache
	evalModel *Model
	evalCache map[int]*big.Int
}

func NewTermStore() *TermStore {
	st := &TermStore{tab: make(map[termKey]*Term)}
	st.tru = st.mk(&Term{op: OpConst, sort: SortBool, val: big.NewInt(1)})
	st.fls = st.mk(&Term{op: OpConst, sort: SortBool, val: big.NewInt(0)})
	return st
}

func (st *TermStore) mk(t *Term) *Term {
	k := termKey{op: t.op, sort: t.sort, a: -1, b: -1, c: -1, p1: t.p1, p2: t.p2}
	if len(t.args) > 0 {
		k.a = t.args[0].id
	}
	if len(t.args) > 1 {
		k.b = t.args[1].id
	}
	if len(t.args) > 2 {
		k.c = t.args[2].id
	}
	if len(t.args) > 3 {
		panic("term arity")
	}
	if t.op == OpConst {
		k.s = t.val.String()
	} else if t.op == OpVar {
		k.s = t.name
	}
	if old, ok := st.tab[k]; ok {
		return old
	}
	t.id = len(st.terms)
	t.st = st
	st.terms = append(st.terms, t)
	st.tab[k] = t
	if t.op == OpVar {
		st.vars = append(st.vars, t)
	}
	return t
}

func (st *TermStore) True() *Term  { return st.tru }
func (st *TermStore) False() *Term { return st.fls }
func (st *TermStore) Bool(b bool) *Term {
	if b {
		return st.tru
	}
	return st.fls
}

var bigOne = big.NewInt(1)

func maskOf(w int) *big.Int {
	m := new(big.Int).Lsh(bigOne, uint(w))
	return m.Sub(m, bigOne)
}

func norm(v *big.Int, w int) *big.Int {
	r := new(big.Int).And(v, maskOf(w))
	return r
}

// toSigned interprets the w-bit unsigned v as two's complement.
func toSigned(v *big.Int, w int) *big.Int {
	if v.Bit(w-1) == 1 {
		return new(big.Int).Sub(v, new(big.Int).Lsh(bigOne, uint(w)))
	}
	return new(big.Int).Set(v)
}

func (st *TermStore) BV(v *big.Int, w int) *Term {
	return st.mk(&Term{op: OpConst, sort: w, val: norm(v, w)})
}
func (st *TermStore) BVu(v uint64, w int) *Term {
	return st.BV(new(big.Int).SetUint64(v), w)
}
func (st *TermStore) BVi(v int64, w int) *Term {
	return st.BV(big.NewInt(v), w)
}
func (st *TermStore) IntC(v *big.Int) *Term {
	return st.mk(&Term{op: OpConst, sort: SortInt, val: new(big.Int).Set(v)})
}
func (st *TermStore) Var(name string, sort int) *Term {
	return st.mk(&Term{op: OpVar, sort: sort, name: name})
}

func (t *Term) isTrue() bool  { return t.op == OpConst && t.sort == SortBool && t.val.Sign() != 0 }
func (t *Term) isFalse() bool { return t.op == OpConst && t.sort == SortBool && t.val.Sign() == 0 }
func (t *Term) isZero() bool  { return t.op == OpConst && t.val.Sign() == 0 }
func (t *Term) isOnes() bool {
	return t.op == OpConst && t.sort > 0 && t.val.Cmp(maskOf(t.sort)) == 0
}

// ---- boolean constructors

func (st *TermStore) Not(a *Term) *Term {
	if a.sort != SortBool {
		panic("Not: sort")
	}
	if a.op == OpConst {
		return st.Bool(a.val.Sign() == 0)
	}
	if a.op == OpBNot {
		return a.args[0]
	}
	return st.mk(&Term{op: OpBNot, sort: SortBool, args: []*Term{a}})
}

func (st *TermStore) And(a, b *Term) *Term {
	if a.isFalse() || b.isFalse() {
		return st.fls
	}
	if a.isTrue() {
		return b
	}
	if b.isTrue() || a == b {
		return a
	}
	if a.id > b.id {
		a, b = b, a
	}
	return st.mk(&Term{op: OpBAnd, sort: SortBool, args: []*Term{a, b}})
}

func (st *TermStore) Or(a, b *Term) *Term {
	if a.isTrue() || b.isTrue() {
		return st.tru
	}
	if a.isFalse() {
		return b
	}
	if b.isFalse() || a == b {
		return a
	}
	if a.id > b.id {
		a, b = b, a
	}
	return st.mk(&Term{op: OpBOr, sort: SortBool, args: []*Term{a, b}})
}

func (st *TermStore) Implies(a, b *Term) *Term { return st.Or(st.Not(a), b) }

func (st *TermStore) Ite(c, a, b *Term) *Term {
	if c.isTrue() {
		return a
	}
	if c.isFalse() {
		return b
	}
	if a == b {
		return a
	}
	if a.sort != b.sort {
		panic(fmt.Sprintf("Ite: sort mismatch %d %d", a.sort, b.sort))
	}
	if a.sort == SortBool {
		if a.isTrue() && b.isFalse() {
			return c
		}
		if a.isFalse() && b.isTrue() {
			return st.Not(c)
		}
	}
	return st.mk(&Term{op: OpIte, sort: a.sort, args: []*Term{c, a, b}})
}

func (st *TermStore) Eq(a, b *Term) *Term {
	if a.sort != b.sort {
		panic(fmt.Sprintf("Eq: sort mismatch %d %d", a.sort, b.sort))
	}
	if a == b {
		return st.tru
	}
	if a.op == OpConst && b.op == OpConst {
		return st.Bool(a.val.Cmp(b.val) == 0)
	}
	if a.sort == SortBool {
		if a.isTrue() {
			return b
		}
		if b.isTrue() {
			return a
		}
		if a.isFalse() {
			return st.Not(b)
		}
		if b.isFalse() {
			return st.Not(a)
		}
	}
	// zext(x) == const  ->  x == const' or false
	if a.op == OpConst {
		a, b = b, a
	}
	if b.op == OpConst && a.op == OpZExt {
		inner := a.args[0]
		if b.val.BitLen() > inner.sort {
			return st.fls
		}
		return st.Eq(inner, st.BV(b.val, inner.sort))
	}
	// concat(x,y) == const -> both halves
	if b.op == OpConst && a.op == OpConcat {
		lo := a.args[1]
		hi := a.args[0]
		lv := new(big.Int).And(b.val, maskOf(lo.sort))
		hv := new(big.Int).Rsh(b.val, uint(lo.sort))
		return st.And(st.Eq(hi, st.BV(hv, hi.sort)), st.Eq(lo, st.BV(lv, lo.sort)))
	}
	if a.id > b.id {
		a, b = b, a
	}
	return st.mk(&Term{op: OpEq, sort: SortBool, args: []*Term{a, b}})
}

// ---- bit-vector constructors

func (st *TermStore) binBV(op Op, a, b *Term) *Term {
	if a.sort != b.sort || a.sort <= 0 {
		panic(fmt.Sprintf("binBV %s: sorts %d %d", opNames[op], a.sort, b.sort))
	}
	w := a.sort
	if a.op == OpConst && b.op == OpConst {
		if r := foldBV(op, a.val, b.val, w); r != nil {
			return st.BV(r, w)
		}
	}
	switch op {
	case OpAdd:
		if a.isZero() {
			return b
		}
		if b.isZero() {
			return a
		}
		// (x + c1) + c2
		if b.op == OpConst && a.op == OpAdd && a.args[1].op == OpConst {
			return st.binBV(OpAdd, a.args[0], st.BV(new(big.Int).Add(a.args[1].val, b.val), w))
		}
		if a.op == OpConst { // constants to the right
			a, b = b, a
		}
	case OpSub:
		if b.isZero() {
			return a
		}
		if a == b {
			return st.BVu(0, w)
		}
		if b.op == OpConst {
			return st.binBV(OpAdd, a, st.BV(new(big.Int).Neg(b.val), w))
		}
	case OpMul:
		if a.isZero() || b.isZero() {
			return st.BVu(0, w)
		}
		if a.op == OpConst && a.val.Cmp(bigOne) == 0 {
			return b
		}
		if b.op == OpConst && b.val.Cmp(bigOne) == 0 {
			return a
		}
		if a.op == OpConst {
			a, b = b, a
		}
	case OpAnd:
		if a.isZero() || b.isZero() {
			return st.BVu(0, w)
		}
		if a.isOnes() {
			return b
		}
		if b.isOnes() || a == b {
			return a
		}
		if a.op == OpConst {
			a, b = b, a
		}
		// x & lowmask  -> zext(extract(x))
		if b.op == OpConst {
			bl := b.val.BitLen()
			if bl < w && b.val.Cmp(maskOf(bl)) == 0 {
				return st.ZExt(st.Extract(a, bl-1, 0), w-bl)
			}
		}
	case OpOr:
		if a.isZero() {
			return b
		}
		if b.isZero() || a == b {
			return a
		}
		if a.isOnes() || b.isOnes() {
			return st.BV(maskOf(w), w)
		}
		if a.op == OpConst {
			a, b = b, a
		}
	case OpXor:
		if a.isZero() {
			return b
		}
		if b.isZero() {
			return a
		}
		if a == b {
			return st.BVu(0, w)
		}
		if a.op == OpConst {
			a, b = b, a
		}
	case OpShl, OpLShr, OpAShr:
		if b.isZero() {
			return a
		}
		if a.isZero() {
			return a
		}
		if b.op == OpConst && op != OpAShr {
			if b.val.Cmp(big.NewInt(int64(w))) >= 0 {
				return st.BVu(0, w)
			}
			k := int(b.val.Int64())
			if op == OpShl {
				// concat(extract(a, w-k-1, 0), 0_k)
				return st.Concat(st.Extract(a, w-k-1, 0), st.BVu(0, k))
			}
			return st.ZExt(st.Extract(a, w-1, k), k)
		}
	case OpUDiv, OpURem:
		if b.op == OpConst && b.val.Cmp(bigOne) == 0 {
			if op == OpUDiv {
				return a
			}
			return st.BVu(0, w)
		}
		// division by power of two
		if b.op == OpConst && b.val.Sign() > 0 && new(big.Int).And(b.val, new(big.Int).Sub(b.val, bigOne)).Sign() == 0 {
			k := b.val.BitLen() - 1
			if op == OpUDiv {
				return st.ZExt(st.Extract(a, w-1, k), k)
			}
			return st.ZExt(st.Extract(a, k-1, 0), w-k)
		}
	}
	return st.mk(&Term{op: op, sort: w, args: []*Term{a, b}})
}

func foldBV(op Op, x, y *big.Int, w int) *big.Int {
	r := new(big.Int)
	switch op {
	case OpAdd:
		r.Add(x, y)
	case OpSub:
		r.Sub(x, y)
	case OpMul:
		r.Mul(x, y)
	case OpUDiv:
		if y.Sign() == 0 {
			return maskOf(w)
		}
		r.Quo(x, y)
	case OpURem:
		if y.Sign() == 0 {
			return new(big.Int).Set(x)
		}
		r.Rem(x, y)
	case OpSDiv:
		sx, sy := toSigned(x, w), toSigned(y, w)
		if sy.Sign() == 0 {
			if sx.Sign() >= 0 {
				return maskOf(w)
			}
			return big.NewInt(1)
		}
		r.Quo(sx, sy)
	case OpSRem:
		sx, sy := toSigned(x, w), toSigned(y, w)
		if sy.Sign() == 0 {
			return new(big.Int).Set(x)
		}
		r.Rem(sx, sy)
	case OpAnd:
		r.And(x, y)
	case OpOr:
		r.Or(x, y)
	case OpXor:
		r.Xor(x, y)
	case OpShl:
		if y.Cmp(big.NewInt(int64(w))) >= 0 {
			return r
		}
		r.Lsh(x, uint(y.Int64()))
	case OpLShr:
		if y.Cmp(big.NewInt(int64(w))) >= 0 {
			return r
		}
		r.Rsh(x, uint(y.Int64()))
	case OpAShr:
		sx := toSigned(x, w)
		sh := uint(w)
		if y.Cmp(big.NewInt(int64(w))) < 0 {
			sh = uint(y.Int64())
		}
		r.Rsh(sx, sh)
	default:
		return nil
	}
	return norm(r, w)
}

func (st *TermStore) Add(a, b *Term) *Term  { return st.binBV(OpAdd, a, b) }
func (st *TermStore) Sub(a, b *Term) *Term  { return st.binBV(OpSub, a, b) }
func (st *TermStore) Mul(a, b *Term) *Term  { return st.binBV(OpMul, a, b) }
func (st *TermStore) UDiv(a, b *Term) *Term { return st.binBV(OpUDiv, a, b) }
func (st *TermStore) URem(a, b *Term) *Term { return st.binBV(OpURem, a, b) }
func (st *TermStore) SDiv(a, b *Term) *Term { return st.binBV(OpSDiv, a, b) }
func (st *TermStore) SRem(a, b *Term) *Term { return st.binBV(OpSRem, a, b) }
func (st *TermStore) BAnd(a, b *Term) *Term { return st.binBV(OpAnd, a, b) }
func (st *TermStore) BOr(a, b *Term) *Term  { return st.binBV(OpOr, a, b) }
func (st *TermStore) BXor(a, b *Term) *Term { return st.binBV(OpXor, a, b) }
func (st *TermStore) Shl(a, b *Term) *Term  { return st.binBV(OpShl, a, b) }
func (st *TermStore) LShr(a, b *Term) *Term { return st.binBV(OpLShr, a, b) }
func (st *TermStore) AShr(a, b *Term) *Term { return st.binBV(OpAShr, a, b) }

func (st *TermStore) BNot(a *Term) *Term {
	if a.op == OpConst {
		return st.BV(new(big.Int).Xor(a.val, maskOf(a.sort)), a.sort)
	}
	if a.op == OpNot {
		return a.args[0]
	}
	return st.mk(&Term{op: OpNot, sort: a.sort, args: []*Term{a}})
}

func (st *TermStore) Neg(a *Term) *Term {
	if a.op == OpConst {
		return st.BV(new(big.Int).Neg(a.val), a.sort)
	}
	return st.mk(&Term{op: OpNeg, sort: a.sort, args: []*Term{a}})
}

func (st *TermStore) Concat(hi, lo *Term) *Term {
	if hi.sort <= 0 || lo.sort <= 0 {
		panic("Concat sort")
	}
	if hi.op == OpConst && lo.op == OpConst {
		v := new(big.Int).Lsh(hi.val, uint(lo.sort))
		v.Or(v, lo.val)
		return st.BV(v, hi.sort+lo.sort)
	}
	if hi.op == OpConst && hi.val.Sign() == 0 {
		return st.ZExt(lo, hi.sort)
	}
	// concat(extract(x,h,m+1), extract(x,m,l)) -> extract(x,h,l)
	if hi.op == OpExtract && lo.op == OpExtract && hi.args[0] == lo.args[0] && hi.p2 == lo.p1+1 {
		return st.Extract(hi.args[0], hi.p1, lo.p2)
	}
	return st.mk(&Term{op: OpConcat, sort: hi.sort + lo.sort, args: []*Term{hi, lo}})
}

func (st *TermStore) Extract(a *Term, hi, lo int) *Term {
	if a.sort <= 0 || hi >= a.sort || lo < 0 || hi < lo {
		panic(fmt.Sprintf("Extract(%d,%d) of width %d", hi, lo, a.sort))
	}
	w := hi - lo + 1
	if w == a.sort {
		return a
	}
	switch a.op {
	case OpConst:
		return st.BV(new(big.Int).Rsh(a.val, uint(lo)), w)
	case OpExtract:
		return st.Extract(a.args[0], a.p2+hi, a.p2+lo)
	case OpConcat:
		l := a.args[1]
		h := a.args[0]
		if hi < l.sort {
			return st.Extract(l, hi, lo)
		}
		if lo >= l.sort {
			return st.Extract(h, hi-l.sort, lo-l.sort)
		}
		return st.Concat(st.Extract(h, hi-l.sort, 0), st.Extract(l, l.sort-1, lo))
	case OpZExt:
		in := a.args[0]
		if hi < in.sort {
			return st.Extract(in, hi, lo)
		}
		if lo >= in.sort {
			return st.BVu(0, w)
		}
		return st.ZExt(st.Extract(in, in.sort-1, lo), hi-in.sort+1)
	case OpSExt:
		in := a.args[0]
		if hi < in.sort {
			return st.Extract(in, hi, lo)
		}
	case OpAnd, OpOr, OpXor:
		if lo == 0 || a.args[1].op == OpConst {
			return st.binBV(a.op, st.Extract(a.args[0], hi, lo), st.Extract(a.args[1], hi, lo))
		}
	case OpAdd, OpSub, OpMul:
		if lo == 0 { // low bits only depend on low bits
			return st.binBV(a.op, st.Extract(a.args[0], hi, 0), st.Extract(a.args[1], hi, 0))
		}
	case OpIte:
		if a.args[1].op == OpConst || a.args[2].op == OpConst {
			return st.Ite(a.args[0], st.Extract(a.args[1], hi, lo), st.Extract(a.args[2], hi, lo))
		}
	}
	return st.mk(&Term{op: OpExtract, sort: w, args: []*Term{a}, p1: hi, p2: lo})
}

func (st *TermStore) ZExt(a *Term, extra int) *Term {
	if extra == 0 {
		return a
	}
	if extra < 0 {
		panic("ZExt negative")
	}
	if a.op == OpConst {
		return st.BV(a.val, a.sort+extra)
	}
	if a.op == OpZExt {
		return st.ZExt(a.args[0], a.p1+extra)
	}
	return st.mk(&Term{op: OpZExt, sort: a.sort + extra, args: []*Term{a}, p1: extra})
}

func (st *TermStore) SExt(a *Term, extra int) *Term {
	if extra == 0 {
		return a
	}
	if a.op == OpConst {
		return st.BV(toSigned(a.val, a.sort), a.sort+extra)
	}
	if a.op == OpZExt { // sign bit is zero
		return st.ZExt(a.args[0], a.p1+extra)
	}
	if a.op == OpSExt {
		return st.SExt(a.args[0], a.p1+extra)
	}
	return st.mk(&Term{op: OpSExt, sort: a.sort + extra, args: []*Term{a}, p1: extra})
}

// umax returns a cheap upper bound on the unsigned value of a (nil = unknown/full).
func umax(a *Term) *big.Int {
	switch a.op {
	case OpConst:
		return a.val
	case OpZExt:
		if m := umax(a.args[0]); m != nil {
			return m
		}
		return maskOf(a.args[0].sort)
	case OpAnd:
		if a.args[1].op == OpConst {
			return a.args[1].val
		}
	case OpURem:
		if a.args[1].op == OpConst && a.args[1].val.Sign() > 0 {
			return new(big.Int).Sub(a.args[1].val, bigOne)
		}
	case OpIte:
		x, y := umax(a.args[1]), umax(a.args[2])
		if x != nil && y != nil {
			if x.Cmp(y) > 0 {
				return x
			}
			return y
		}
	}
	return nil
}

func (st *TermStore) cmp(op Op, a, b *Term) *Term {
	if a.sort != b.sort || a.sort <= 0 {
		panic(fmt.Sprintf("cmp %s: sorts %d %d", opNames[op], a.sort, b.sort))
	}
	w := a.sort
	if a.op == OpConst && b.op == OpConst {
		var c int
		if op == OpULt || op == OpULe {
			c = a.val.Cmp(b.val)
		} else {
			c = toSigned(a.val, w).Cmp(toSigned(b.val, w))
		}
		if op == OpULt || op == OpSLt {
			return st.Bool(c < 0)
		}
		return st.Bool(c <= 0)
	}
	if a == b {
		return st.Bool(op == OpULe || op == OpSLe)
	}
	switch op {
	case OpULt:
		if b.isZero() {
			return st.fls
		}
		if m := umax(a); m != nil && b.op == OpConst && m.Cmp(b.val) < 0 {
			return st.tru
		}
		// zext(x) < c  with both narrow
		if a.op == OpZExt && b.op == OpConst {
			in := a.args[0]
			if b.val.BitLen() <= in.sort {
				return st.cmp(OpULt, in, st.BV(b.val, in.sort))
			}
			return st.tru
		}
		if b.op == OpZExt && a.op == OpConst {
			in := b.args[0]
			if a.val.BitLen() <= in.sort {
				return st.cmp(OpULt, st.BV(a.val, in.sort), in)
			}
			return st.fls
		}
		if a.op == OpZExt && b.op == OpZExt && a.args[0].sort == b.args[0].sort {
			return st.cmp(OpULt, a.args[0], b.args[0])
		}
	case OpULe:
		if a.isZero() {
			return st.tru
		}
		if m := umax(a); m != nil && b.op == OpConst && m.Cmp(b.val) <= 0 {
			return st.tru
		}
		if a.op == OpZExt && b.op == OpConst {
			in := a.args[0]
			if b.val.BitLen() <= in.sort {
				return st.cmp(OpULe, in, st.BV(b.val, in.sort))
			}
			return st.tru
		}
		if b.op == OpZExt && a.op == OpConst {
			in := b.args[0]
			if a.val.BitLen() <= in.sort {
				return st.cmp(OpULe, st.BV(a.val, in.sort), in)
			}
			return st.fls
		}
		if a.op == OpZExt && b.op == OpZExt && a.args[0].sort == b.args[0].sort {
			return st.cmp(OpULe, a.args[0], b.args[0])
		}
	case OpSLt, OpSLe:
		// both provably non-negative -> unsigned compare
		ma, mb := umax(a), umax(b)
		if ma != nil && mb != nil && ma.BitLen() < w && mb.BitLen() < w {
			if op == OpSLt {
				return st.cmp(OpULt, a, b)
			}
			return st.cmp(OpULe, a, b)
		}
	}
	return st.mk(&Term{op: op, sort: SortBool, args: []*Term{a, b}})
}

func (st *TermStore) ULt(a, b *Term) *Term { return st.cmp(OpULt, a, b) }
func (st *TermStore) ULe(a, b *Term) *Term { return st.cmp(OpULe, a, b) }
func (st *TermStore) SLt(a, b *Term) *Term { return st.cmp(OpSLt, a, b) }
func (st *TermStore) SLe(a, b *Term) *Term { return st.cmp(OpSLe, a, b) }

// ---- Int constructors

func (st *TermStore) binInt(op Op, a, b *Term) *Term {
	if a.sort != SortInt || b.sort != SortInt {
		panic("binInt sort")
	}
	if a.op == OpConst && b.op == OpConst {
		r := new(big.Int)
		switch op {
		case OpIAdd:
			return st.IntC(r.Add(a.val, b.val))
		case OpISub:
			return st.IntC(r.Sub(a.val, b.val))
		case OpIMul:
			return st.IntC(r.Mul(a.val, b.val))
		case OpIDiv:
			if b.val.Sign() != 0 {
				return st.IntC(r.Div(a.val, b.val)) // Euclidean, as SMT-LIB
			}
		case OpIMod:
			if b.val.Sign() != 0 {
				return st.IntC(r.Mod(a.val, b.val))
			}
		case OpILe:
			return st.Bool(a.val.Cmp(b.val) <= 0)
		case OpILt:
			return st.Bool(a.val.Cmp(b.val) < 0)
		}
	}
	switch op {
	case OpIAdd:
		if a.isZero() {
			return b
		}
		if b.isZero() {
			return a
		}
	case OpISub:
		if b.isZero() {
			return a
		}
		if a == b {
			return st.IntC(new(big.Int))
		}
	case OpIMul:
		if a.isZero() || b.isZero() {
			return st.IntC(new(big.Int))
		}
		if a.op == OpConst && a.val.Cmp(bigOne) == 0 {
			return b
		}
		if b.op == OpConst && b.val.Cmp(bigOne) == 0 {
			return a
		}
	case OpILe:
		if a == b {
			return st.tru
		}
	case OpILt:
		if a == b {
			return st.fls
		}
	}
	srt := SortInt
	if op == OpILe || op == OpILt {
		srt = SortBool
	}
	return st.mk(&Term{op: op, sort: srt, args: []*Term{a, b}})
}

func (st *TermStore) IAdd(a, b *Term) *Term { return st.binInt(OpIAdd, a, b) }
func (st *TermStore) ISub(a, b *Term) *Term { return st.binInt(OpISub, a, b) }
func (st *TermStore) IMul(a, b *Term) *Term { return st.binInt(OpIMul, a, b) }
func (st *TermStore) IDiv(a, b *Term) *Term { return st.binInt(OpIDiv, a, b) }
func (st *TermStore) IMod(a, b *Term) *Term { return st.binInt(OpIMod, a, b) }
func (st *TermStore) ILe(a, b *Term) *Term  { return st.binInt(OpILe, a, b) }
func (st *TermStore) ILt(a, b *Term) *Term  { return st.binInt(OpILt, a, b) }
func (st *TermStore) INeg(a *Term) *Term {
	if a.op == OpConst {
		return st.IntC(new(big.Int).Neg(a.val))
	}
	return st.mk(&Term{op: OpINeg, sort: SortInt, args: []*Term{a}})
}
func (st *TermStore) IAbs(a *Term) *Term {
	if a.op == OpConst {
		return st.IntC(new(big.Int).Abs(a.val))
	}
	return st.mk(&Term{op: OpIAbs, sort: SortInt, args: []*Term{a}})
}
func (st *TermStore) BV2Nat(a *Term) *Term {
	if a.op == OpConst {
		return st.IntC(a.val)
	}
	return st.mk(&Term{op: OpBV2Nat, sort: SortInt, args: []*Term{a}})
}

// BV2Int interprets a as signed two's complement.
func (st *TermStore) BV2IntSigned(a *Term) *Term {
	if a.op == OpConst {
		return st.IntC(toSigned(a.val, a.sort))
	}
	w := a.sort
	n := st.BV2Nat(a)
	neg := st.SLt(a, st.BVu(0, w))
	return st.Ite(neg, st.ISub(n, st.IntC(new(big.Int).Lsh(bigOne, uint(w)))), n)
}
func (st *TermStore) Int2BV(a *Term, w int) *Term {
	if a.op == OpConst {
		return st.BV(a.val, w)
	}
	if a.op == OpBV2Nat && a.args[0].sort == w {
		return a.args[0]
	}
	return st.mk(&Term{op: OpInt2BV, sort: w, args: []*Term{a}})
}

// ---- printing

func sortStr(s int) string {
	switch {
	case s == SortBool:
		return "Bool"
	case s == SortInt:
		return "Int"
	}
	return fmt.Sprintf("(_ BitVec %d)", s)
}

func (t *Term) leafStr() string {
	switch t.op {
	case OpConst:
		switch {
		case t.sort == SortBool:
			if t.val.Sign() != 0 {
				return "true"
			}
			return "false"
		case t.sort == SortInt:
			if t.val.Sign() < 0 {
				return "(- " + new(big.Int).Neg(t.val).String() + ")"
			}
			return t.val.String()
		}
		return fmt.Sprintf("(_ bv%s %d)", t.val.String(), t.sort)
	case OpVar:
		return t.name
	}
	return fmt.Sprintf("t%d", t.id)
}

func (t *Term) defStr() string {
	var sb strings.Builder
	switch t.op {
	case OpExtract:
		fmt.Fprintf(&sb, "((_ extract %d %d) %s)", t.p1, t.p2, t.args[0].leafStr())
	case OpZExt:
		fmt.Fprintf(&sb, "((_ zero_extend %d) %s)", t.p1, t.args[0].leafStr())
	case OpSExt:
		fmt.Fprintf(&sb, "((_ sign_extend %d) %s)", t.p1, t.args[0].leafStr())
	case OpInt2BV:
		fmt.Fprintf(&sb, "((_ int2bv %d) %s)", t.sort, t.args[0].leafStr())
	default:
		sb.WriteString("(")
		sb.WriteString(opNames[t.op])
		for _, a := range t.args {
			sb.WriteString(" ")
			sb.WriteString(a.leafStr())
		}
		sb.WriteString(")")
	}
	return sb.String()
}

// String renders a term as a nested expression (for diagnostics; bounded depth).
func (t *Term) String() string { return t.str(4) }
func (t *Term) str(d int) string {
	if t.op == OpConst || t.op == OpVar {
		return t.leafStr()
	}
	if d == 0 {
		return fmt.Sprintf("t%d", t.id)
	}
	var sb strings.Builder
	sb.WriteString("(")
	switch t.op {
	case OpExtract:
		fmt.Fprintf(&sb, "extract[%d:%d]", t.p1, t.p2)
	case OpZExt:
		fmt.Fprintf(&sb, "zext%d", t.p1)
	case OpSExt:
		fmt.Fprintf(&sb, "sext%d", t.p1)
	case OpInt2BV:
		fmt.Fprintf(&sb, "int2bv%d", t.sort)
	default:
		sb.WriteString(opNames[t.op])
	}
	for _, a := range t.args {
		sb.WriteString(" ")
		sb.WriteString(a.str(d - 1))
	}
	sb.WriteString(")")
	return sb.String()
}

// ---- evaluation under a model

type Model struct {
	vals map[string]*big.Int
	gen  int
}

func (m *Model) Get(name string) *big.Int {
	if m == nil {
		return nil
	}
	return m.vals[name]
}

var bigZero = new(big.Int)

// Eval evaluates t under m (variables missing from m are 0/false).
func (st *TermStore) Eval(t *Term, m *Model) *big.Int {
	if st.evalModel != m || st.evalCache == nil {
		st.evalModel = m
		st.evalCache = make(map[int]*big.Int)
	}
	return st.eval(t, m)
}

func (st *TermStore) eval(t *Term, m *Model) *big.Int {
	switch t.op {
	case OpConst:
		return t.val
	case OpVar:
		if v := m.Get(t.name); v != nil {
			return v
		}
		return bigZero
	}
	if v, ok := st.evalCache[t.id]; ok {
		return v
	}
	var r *big.Int
	a := make([]*big.Int, len(t.args))
	if t.op == OpIte {
		c := st.eval(t.args[0], m)
		if c.Sign() != 0 {
			r = st.eval(t.args[1], m)
		} else {
			r = st.eval(t.args[2], m)
		}
		st.evalCache[t.id] = r
		return r
	}
	for i, x := range t.args {
		a[i] = st.eval(x, m)
	}
	b2i := func(b bool) *big.Int {
		if b {
			return bigOne
		}
		return bigZero
	}
	switch t.op {
	case OpAdd, OpSub, OpMul, OpUDiv, OpURem, OpSDiv, OpSRem, OpAnd, OpOr, OpXor, OpShl, OpLShr, OpAShr:
		r = foldBV(t.op, a[0], a[1], t.sort)
	case OpNot:
		r = new(big.Int).Xor(a[0], maskOf(t.sort))
	case OpNeg:
		r = norm(new(big.Int).Neg(a[0]), t.sort)
	case OpConcat:
		r = new(big.Int).Lsh(a[0], uint(t.args[1].sort))
		r.Or(r, a[1])
	case OpExtract:
		r = norm(new(big.Int).Rsh(a[0], uint(t.p2)), t.sort)
	case OpZExt:
		r = a[0]
	case OpSExt:
		r = norm(toSigned(a[0], t.args[0].sort), t.sort)
	case OpEq:
		r = b2i(a[0].Cmp(a[1]) == 0)
	case OpULt:
		r = b2i(a[0].Cmp(a[1]) < 0)
	case OpULe:
		r = b2i(a[0].Cmp(a[1]) <= 0)
	case OpSLt:
		w := t.args[0].sort
		r = b2i(toSigned(a[0], w).Cmp(toSigned(a[1], w)) < 0)
	case OpSLe:
		w := t.args[0].sort
		r = b2i(toSigned(a[0], w).Cmp(toSigned(a[1], w)) <= 0)
	case OpBAnd:
		r = b2i(a[0].Sign() != 0 && a[1].Sign() != 0)
	case OpBOr:
		r = b2i(a[0].Sign() != 0 || a[1].Sign() != 0)
	case OpBNot:
		r = b2i(a[0].Sign() == 0)
	case OpIAdd:
		r = new(big.Int).Add(a[0], a[1])
	case OpISub:
		r = new(big.Int).Sub(a[0], a[1])
	case OpIMul:
		r = new(big.Int).Mul(a[0], a[1])
	case OpIDiv:
		if a[1].Sign() == 0 {
			r = bigZero
		} else {
			r = new(big.Int).Div(a[0], a[1])
		}
	case OpIMod:
		if a[1].Sign() == 0 {
			r = a[0]
		} else {
			r = new(big.Int).Mod(a[0], a[1])
		}
	case OpINeg:
		r = new(big.Int).Neg(a[0])
	case OpIAbs:
		r = new(big.Int).Abs(a[0])
	case OpILe:
		r = b2i(a[0].Cmp(a[1]) <= 0)
	case OpILt:
		r = b2i(a[0].Cmp(a[1]) < 0)
	case OpBV2Nat:
		r = a[0]
	case OpInt2BV:
		r = norm(a[0], t.sort)
	default:
		panic("eval: op")
	}
	st.evalCache[t.id] = r
	return r
}
