package interp

// Symbolic-aware implementations of the value-level operations.

import (
	"fmt"
	"go/token"
	"go/types"
	"math/big"
	"strings"
	"unicode/utf8"

	"golang.org/x/tools/go/ssa"
)

// poison marks a value produced by a package initialiser the engine could not run.
type poison struct{ why string }

// symStr is a string some of whose bytes are symbolic (each element uint8 or *Term of width 8).
type symStr []value

// symRef is the address of elems[idx] for a symbolic idx already known to be in range.
type symRef struct {
	elems []value
	idx   *Term // 64-bit
}

// opaqueFloat is a floating point number derived from a symbolic value; it may
// be passed around and formatted but not inspected.
type opaqueFloat struct{}

// ---- type info

func intInfo(t types.Type) (w int, signed bool, ok bool) {
	b, isB := t.Underlying().(*types.Basic)
	if !isB {
		return 0, false, false
	}
	switch b.Kind() {
	case types.Int, types.Int64, types.UntypedInt:
		return 64, true, true
	case types.Int8:
		return 8, true, true
	case types.Int16:
		return 16, true, true
	case types.Int32, types.UntypedRune:
		return 32, true, true
	case types.Uint, types.Uint64, types.Uintptr:
		return 64, false, true
	case types.Uint8:
		return 8, false, true
	case types.Uint16:
		return 16, false, true
	case types.Uint32:
		return 32, false, true
	}
	return 0, false, false
}

func isBoolType(t types.Type) bool {
	b, ok := t.Underlying().(*types.Basic)
	return ok && b.Info()&types.IsBoolean != 0
}

// lift turns a concrete scalar (or a term) into a term.
func lift(st *TermStore, v value) *Term {
	switch x := v.(type) {
	case *Term:
		return x
	case bool:
		return st.Bool(x)
	case int:
		return st.BVi(int64(x), 64)
	case int8:
		return st.BVi(int64(x), 8)
	case int16:
		return st.BVi(int64(x), 16)
	case int32:
		return st.BVi(int64(x), 32)
	case int64:
		return st.BVi(x, 64)
	case uint:
		return st.BVu(uint64(x), 64)
	case uint8:
		return st.BVu(uint64(x), 8)
	case uint16:
		return st.BVu(uint64(x), 16)
	case uint32:
		return st.BVu(uint64(x), 32)
	case uint64:
		return st.BVu(x, 64)
	case uintptr:
		return st.BVu(uint64(x), 64)
	}
	panic(engineFault{fmt.Sprintf("lift: cannot make a term from %T", v)})
}

// lower converts constant terms back to concrete Go values of static type t.
func lower(t types.Type, tm *Term) value {
	if tm.op != OpConst {
		return tm
	}
	b, ok := t.Underlying().(*types.Basic)
	if !ok {
		panic(engineFault{"lower: non-basic type " + t.String()})
	}
	if tm.sort == SortBool {
		return tm.val.Sign() != 0
	}
	u := tm.val.Uint64()
	switch b.Kind() {
	case types.Bool, types.UntypedBool:
		return tm.val.Sign() != 0
	case types.Int, types.UntypedInt:
		return int(int64(u))
	case types.Int8:
		return int8(u)
	case types.Int16:
		return int16(u)
	case types.Int32, types.UntypedRune:
		return int32(u)
	case types.Int64:
		return int64(u)
	case types.Uint:
		return uint(u)
	case types.Uint8:
		return uint8(u)
	case types.Uint16:
		return uint16(u)
	case types.Uint32:
		return uint32(u)
	case types.Uint64:
		return u
	case types.Uintptr:
		return uintptr(u)
	}
	panic(engineFault{"lower: kind " + b.String()})
}

func isSym(v value) bool {
	_, ok := v.(*Term)
	return ok
}

func (fr *frame) st() *TermStore { return fr.i.pc.st }

// to64 widens an integer term of static type t to 64 bits.
func to64(st *TermStore, tm *Term, signed bool) *Term {
	if tm.sort == 64 {
		return tm
	}
	if tm.sort > 64 {
		panic(engineFault{"to64: wide term"})
	}
	if signed {
		return st.SExt(tm, 64-tm.sort)
	}
	return st.ZExt(tm, 64-tm.sort)
}

// concreteInt returns v as int64, forking on feasible values if symbolic.
func (fr *frame) concreteInt(v value, what string) int64 {
	if tm, ok := v.(*Term); ok {
		r := fr.i.pc.concretize(tm, fr.i.cfg.Lim.ConcretizeCap, what+" at "+fr.pos())
		if tm.sort < 64 {
			return int64(r.Uint64())
		}
		return int64(r.Uint64())
	}
	return asInt64(v)
}

// ---- binop

func isZeroInt(v value) bool {
	switch x := v.(type) {
	case int:
		return x == 0
	case int8:
		return x == 0
	case int16:
		return x == 0
	case int32:
		return x == 0
	case int64:
		return x == 0
	case uint:
		return x == 0
	case uint8:
		return x == 0
	case uint16:
		return x == 0
	case uint32:
		return x == 0
	case uint64:
		return x == 0
	case uintptr:
		return x == 0
	}
	return false
}

func binop(fr *frame, op token.Token, tx, ty types.Type, x, y value) value {
	if _, ok := x.(opaqueFloat); ok {
		return opaqueFloatOp(op)
	}
	if _, ok := y.(opaqueFloat); ok {
		return opaqueFloatOp(op)
	}
	_, xs := x.(symStr)
	_, ys := y.(symStr)
	if xs || ys {
		return strBinop(fr, op, x, y)
	}
	if isSym(x) || isSym(y) {
		return symBinop(fr, op, tx, ty, x, y)
	}
	switch op {
	case token.QUO, token.REM:
		if isZeroInt(y) {
			rtPanic(fr, "integer divide by zero")
		}
	case token.EQL:
		return eqValue(fr, tx, x, y)
	case token.NEQ:
		r := eqValue(fr, tx, x, y)
		if b, ok := r.(bool); ok {
			return !b
		}
		return fr.st().Not(r.(*Term))
	case token.SHL, token.SHR:
		if _, ok := asUnsigned(y); !ok {
			rtPanic(fr, "negative shift amount")
		}
	}
	return binopConcrete(op, tx, x, y)
}

func opaqueFloatOp(op token.Token) value {
	switch op {
	case token.ADD, token.SUB, token.MUL, token.QUO:
		return opaqueFloat{}
	}
	panic(engineFault{"comparison of a float derived from a symbolic value"})
}

func symBinop(fr *frame, op token.Token, tx, ty types.Type, x, y value) value {
	st := fr.st()
	if op == token.EQL || op == token.NEQ {
		if isBoolType(tx) {
			r := st.Eq(lift(st, x), lift(st, y))
			if op == token.NEQ {
				r = st.Not(r)
			}
			return lower(types.Typ[types.Bool], r)
		}
	}
	w, signed, ok := intInfo(tx)
	if !ok {
		panic(engineFault{fmt.Sprintf("symbolic binop %s on type %s at %s", op, tx, fr.pos())})
	}
	a := lift(st, x)
	var r *Term
	switch op {
	case token.SHL, token.SHR:
		wy, ysigned, ok := intInfo(ty)
		if !ok {
			panic(engineFault{"shift count type " + ty.String()})
		}
		b := lift(st, y)
		if ysigned {
			neg := st.SLt(b, st.BVu(0, wy))
			if fr.i.pc.branch(neg) {
				rtPanic(fr, "negative shift amount")
			}
		}
		var cnt *Term
		var big_ *Term = st.False()
		if wy <= w {
			cnt = st.ZExt(b, w-wy)
		} else {
			cnt = st.Extract(b, w-1, 0)
			big_ = st.Not(st.Eq(st.Extract(b, wy-1, w), st.BVu(0, wy-w)))
		}
		var sh, fill *Term
		if op == token.SHL {
			sh = st.Shl(a, cnt)
			fill = st.BVu(0, w)
		} else if signed {
			sh = st.AShr(a, cnt)
			fill = st.AShr(a, st.BVu(uint64(w-1), w))
		} else {
			sh = st.LShr(a, cnt)
			fill = st.BVu(0, w)
		}
		r = st.Ite(big_, fill, sh)
		return lower(tx, r)
	}
	b := lift(st, y)
	if a.sort != b.sort {
		panic(engineFault{fmt.Sprintf("symbolic binop %s: widths %d %d at %s", op, a.sort, b.sort, fr.pos())})
	}
	switch op {
	case token.ADD:
		r = st.Add(a, b)
	case token.SUB:
		r = st.Sub(a, b)
	case token.MUL:
		r = st.Mul(a, b)
	case token.QUO, token.REM:
		if fr.i.pc.branch(st.Eq(b, st.BVu(0, w))) {
			rtPanic(fr, "integer divide by zero")
		}
		if fr.i.cfg.ConcretizeDivisors && b.op != OpConst {
			// case-split on the divisor's feasible values: division by a constant is cheap for the solver
			pc := fr.i.pc
			if vals := pc.smallSet(b, 4); vals != nil {
				k := pc.choose(len(vals))
				c := pc.constLike(b, vals[k])
				pc.addConstraint(st.Eq(b, c))
				b = c
			}
		}
		switch {
		case op == token.QUO && signed:
			r = st.SDiv(a, b)
		case op == token.QUO:
			r = st.UDiv(a, b)
		case signed:
			r = st.SRem(a, b)
		default:
			r = st.URem(a, b)
		}
	case token.AND:
		r = st.BAnd(a, b)
	case token.OR:
		r = st.BOr(a, b)
	case token.XOR:
		r = st.BXor(a, b)
	case token.AND_NOT:
		r = st.BAnd(a, st.BNot(b))
	case token.EQL:
		return lower(types.Typ[types.Bool], st.Eq(a, b))
	case token.NEQ:
		return lower(types.Typ[types.Bool], st.Not(st.Eq(a, b)))
	case token.LSS:
		if signed {
			return lower(types.Typ[types.Bool], st.SLt(a, b))
		}
		return lower(types.Typ[types.Bool], st.ULt(a, b))
	case token.LEQ:
		if signed {
			return lower(types.Typ[types.Bool], st.SLe(a, b))
		}
		return lower(types.Typ[types.Bool], st.ULe(a, b))
	case token.GTR:
		if signed {
			return lower(types.Typ[types.Bool], st.SLt(b, a))
		}
		return lower(types.Typ[types.Bool], st.ULt(b, a))
	case token.GEQ:
		if signed {
			return lower(types.Typ[types.Bool], st.SLe(b, a))
		}
		return lower(types.Typ[types.Bool], st.ULe(b, a))
	default:
		panic(engineFault{"symbolic binop " + op.String()})
	}
	return lower(tx, r)
}

// ---- equality (may produce a term)

// eqTerm returns a Bool term for x == y at static type t.
func eqTerm(fr *frame, t types.Type, x, y value) *Term {
	st := fr.st()
	switch x := x.(type) {
	case *Term:
		return st.Eq(x, lift(st, y))
	case symStr:
		return strEq(fr, x, y)
	case string:
		if ys, ok := y.(symStr); ok {
			return strEq(fr, ys, x)
		}
		return st.Bool(x == y.(string))
	case structure:
		y := y.(structure)
		tS := t.Underlying().(*types.Struct)
		r := st.True()
		for i := 0; i < tS.NumFields(); i++ {
			f := tS.Field(i)
			if f.Name() == "_" {
				continue
			}
			r = st.And(r, eqTerm(fr, f.Type(), x[i], y[i]))
			if r.isFalse() {
				return r
			}
		}
		return r
	case array:
		y := y.(array)
		tE := t.Underlying().(*types.Array).Elem()
		r := st.True()
		for i := range x {
			r = st.And(r, eqTerm(fr, tE, x[i], y[i]))
			if r.isFalse() {
				return r
			}
		}
		return r
	case iface:
		y := y.(iface)
		if !sameType(x.t, y.t) {
			return st.False()
		}
		if x.t == nil {
			return st.True()
		}
		if !types.Comparable(x.t) {
			panic(targetPanic{v: iface{fr.i.runtimeErrorString, "runtime error: comparing uncomparable type " + x.t.String()}, runtime: true,
				site: fr.fn.String() + " " + fr.pos(), stack: fr.stack()})
		}
		return eqTerm(fr, x.t, x.v, y.v)
	case poison:
		panic(engineFault{"comparison with value from failed initialiser: " + x.why})
	}
	if ty, ok := y.(*Term); ok {
		return st.Eq(lift(st, x), ty)
	}
	return st.Bool(equals(t, x, y))
}

// eqValue implements == for any type, including nil comparisons of reference types.
func eqValue(fr *frame, t types.Type, x, y value) value {
	switch t.Underlying().(type) {
	case *types.Map, *types.Signature, *types.Slice:
		return eqnil(t, x, y)
	}
	r := eqTerm(fr, t, x, y)
	if r.op == OpConst {
		return r.val.Sign() != 0
	}
	return r
}

func eqnil(t types.Type, x, y value) bool {
	switch x := x.(type) {
	case *symMap:
		return (x != nil) == (y.(*symMap) != nil)
	case *ssa.Function:
		switch y := y.(type) {
		case *ssa.Function:
			return (x != nil) == (y != nil)
		case *closure:
			return x != nil
		}
	case *closure:
		switch y := y.(type) {
		case *ssa.Function:
			return y != nil
		}
		return true
	case []value:
		return (x != nil) == (y.([]value) != nil)
	case poison:
		panic(engineFault{"nil comparison of value from failed initialiser: " + x.why})
	}
	panic(engineFault{fmt.Sprintf("eqnil(%s): illegal dynamic type: %T", t, x)})
}

// ---- unop

func unop(fr *frame, instr *ssa.UnOp, x value) value {
	switch instr.Op {
	case token.ARROW:
		v, ok := chanRecv(fr, x, instr.X.Type().Underlying().(*types.Chan).Elem())
		if instr.CommaOk {
			return tuple{v, ok}
		}
		return v
	case token.MUL:
		return loadAddr(fr, deref(instr.X.Type()), x)
	}
	if _, ok := x.(opaqueFloat); ok {
		return x
	}
	if tm, ok := x.(*Term); ok {
		st := fr.st()
		switch instr.Op {
		case token.SUB:
			return lower(instr.Type(), st.Neg(tm))
		case token.XOR:
			return lower(instr.Type(), st.BNot(tm))
		case token.NOT:
			return lower(instr.Type(), st.Not(tm))
		}
	}
	switch instr.Op {
	case token.SUB:
		switch x := x.(type) {
		case int:
			return -x
		case int8:
			return -x
		case int16:
			return -x
		case int32:
			return -x
		case int64:
			return -x
		case uint:
			return -x
		case uint8:
			return -x
		case uint16:
			return -x
		case uint32:
			return -x
		case uint64:
			return -x
		case uintptr:
			return -x
		case float32:
			return -x
		case float64:
			return -x
		case complex64:
			return -x
		case complex128:
			return -x
		}
	case token.NOT:
		return !x.(bool)
	case token.XOR:
		switch x := x.(type) {
		case int:
			return ^x
		case int8:
			return ^x
		case int16:
			return ^x
		case int32:
			return ^x
		case int64:
			return ^x
		case uint:
			return ^x
		case uint8:
			return ^x
		case uint16:
			return ^x
		case uint32:
			return ^x
		case uint64:
			return ^x
		case uintptr:
			return ^x
		}
	}
	panic(engineFault{fmt.Sprintf("invalid unary op %s %T at %s", instr.Op, x, fr.pos())})
}

// ---- memory

func loadAddr(fr *frame, T types.Type, addr value) value {
	switch a := addr.(type) {
	case *value:
		if a == nil {
			rtPanic(fr, "invalid memory address or nil pointer dereference")
		}
		return load(T, a)
	case *symRef:
		st := fr.st()
		n := len(a.elems)
		r := lift(st, a.elems[n-1])
		for k := n - 2; k >= 0; k-- {
			r = st.Ite(st.Eq(a.idx, st.BVu(uint64(k), 64)), lift(st, a.elems[k]), r)
		}
		return lower(T, r)
	case poison:
		panic(engineFault{"load through pointer from failed initialiser: " + a.why})
	}
	panic(engineFault{fmt.Sprintf("load from %T at %s", addr, fr.pos())})
}

func storeAddr(fr *frame, T types.Type, addr value, v value) {
	switch a := addr.(type) {
	case *value:
		if a == nil {
			rtPanic(fr, "invalid memory address or nil pointer dereference")
		}
		store(T, a, v)
		return
	case *symRef:
		st := fr.st()
		nv := lift(st, v)
		for k := range a.elems {
			old := lift(st, a.elems[k])
			a.elems[k] = lower(T, st.Ite(st.Eq(a.idx, st.BVu(uint64(k), 64)), nv, old))
		}
		return
	}
	panic(engineFault{fmt.Sprintf("store to %T at %s", addr, fr.pos())})
}

func isScalarType(t types.Type) bool {
	_, _, ok := intInfo(t)
	return ok || isBoolType(t)
}

// boundsCheck decides 0 <= idx < n (n concrete) and raises the runtime panic on the failing side.
// It returns the index as a 64-bit term or a concrete int64.
func boundsCheck(fr *frame, idx value, idxType types.Type, n int, what string) (int64, *Term) {
	if tm, ok := idx.(*Term); ok {
		_, signed, _ := intInfo(idxType)
		i64 := to64(fr.st(), tm, signed)
		inRange := fr.st().ULt(i64, fr.st().BVu(uint64(n), 64))
		if !fr.i.pc.branch(inRange) {
			rtPanic(fr, fmt.Sprintf("%s out of range [symbolic] with length %d", what, n))
		}
		if i64.op == OpConst {
			return int64(i64.val.Uint64()), nil
		}
		return 0, i64
	}
	var i int64
	if u, isU := idx.(uint64); isU && u > uint64(1<<62) {
		i = -1
	} else if u, isU := idx.(uint); isU && u > uint(1<<62) {
		i = -1
	} else {
		i = asInt64(idx)
	}
	if i < 0 || i >= int64(n) {
		rtPanic(fr, fmt.Sprintf("%s out of range [%d] with length %d", what, i, n))
	}
	return i, nil
}

func onlyLoadsAndStores(instr *ssa.IndexAddr) bool {
	refs := instr.Referrers()
	if refs == nil {
		return false
	}
	for _, r := range *refs {
		switch r := r.(type) {
		case *ssa.UnOp:
			if r.Op != token.MUL {
				return false
			}
		case *ssa.Store:
			if r.Addr != ssa.Value(instr) {
				return false
			}
		case *ssa.DebugRef:
		default:
			return false
		}
	}
	return true
}

func indexAddr(fr *frame, instr *ssa.IndexAddr, x, idx value) value {
	var elems []value
	var elemT types.Type
	switch x := x.(type) {
	case []value:
		elems = x
		elemT = instr.X.Type().Underlying().(*types.Slice).Elem()
	case *value:
		if x == nil {
			rtPanic(fr, "invalid memory address or nil pointer dereference")
		}
		elems = (*x).(array)
		elemT = deref(instr.X.Type()).Underlying().(*types.Array).Elem()
	case poison:
		panic(engineFault{"index of value from failed initialiser: " + x.why})
	default:
		panic(engineFault{fmt.Sprintf("unexpected x type in IndexAddr: %T", x)})
	}
	i, tm := boundsCheck(fr, idx, instr.Index.Type(), len(elems), "index")
	if tm == nil {
		return &elems[i]
	}
	if isScalarType(elemT) && len(elems) <= fr.i.cfg.Lim.IndexIteCap && onlyLoadsAndStores(instr) {
		return &symRef{elems: elems, idx: tm}
	}
	v := fr.i.pc.concretize(tm, fr.i.cfg.Lim.ConcretizeCap, "index at "+fr.pos())
	return &elems[v.Int64()]
}

func index(fr *frame, instr *ssa.Index, x, idx value) value {
	st := fr.st()
	switch x := x.(type) {
	case array:
		i, tm := boundsCheck(fr, idx, instr.Index.Type(), len(x), "index")
		if tm == nil {
			return x[i]
		}
		elemT := instr.X.Type().Underlying().(*types.Array).Elem()
		if isScalarType(elemT) && len(x) <= fr.i.cfg.Lim.IndexIteCap {
			r := lift(st, x[len(x)-1])
			for k := len(x) - 2; k >= 0; k-- {
				r = st.Ite(st.Eq(tm, st.BVu(uint64(k), 64)), lift(st, x[k]), r)
			}
			return lower(elemT, r)
		}
		v := fr.i.pc.concretize(tm, fr.i.cfg.Lim.ConcretizeCap, "index at "+fr.pos())
		return x[v.Int64()]
	case string:
		i, tm := boundsCheck(fr, idx, instr.Index.Type(), len(x), "index")
		if tm == nil {
			return x[i]
		}
		if len(x) <= fr.i.cfg.Lim.IndexIteCap {
			r := st.BVu(uint64(x[len(x)-1]), 8)
			for k := len(x) - 2; k >= 0; k-- {
				r = st.Ite(st.Eq(tm, st.BVu(uint64(k), 64)), st.BVu(uint64(x[k]), 8), r)
			}
			return lower(types.Typ[types.Uint8], r)
		}
		v := fr.i.pc.concretize(tm, fr.i.cfg.Lim.ConcretizeCap, "index at "+fr.pos())
		return x[v.Int64()]
	case symStr:
		i, tm := boundsCheck(fr, idx, instr.Index.Type(), len(x), "index")
		if tm == nil {
			return x[i]
		}
		r := lift(st, x[len(x)-1])
		for k := len(x) - 2; k >= 0; k-- {
			r = st.Ite(st.Eq(tm, st.BVu(uint64(k), 64)), lift(st, x[k]), r)
		}
		return lower(types.Typ[types.Uint8], r)
	}
	panic(engineFault{fmt.Sprintf("unexpected x type in Index: %T", x)})
}

func makeSlice(fr *frame, instr *ssa.MakeSlice) value {
	lenV, capV := fr.get(instr.Len), fr.get(instr.Cap)
	lim := fr.i.cfg.Lim
	checkSym := func(v value, t types.Type, what string) {
		tm, ok := v.(*Term)
		if !ok {
			return
		}
		_, signed, _ := intInfo(t)
		t64 := to64(fr.st(), tm, signed)
		st := fr.st()
		// negative / huge sizes panic in Go
		if fr.i.pc.branch(st.SLt(t64, st.BVu(0, 64))) {
			rtPanic(fr, "makeslice: "+what+" out of range")
		}
		if lim.AllocLimit > 0 {
			fr.i.pc.assert(st.SLe(t64, st.BVi(lim.AllocLimit, 64)), "alloc-bound", fr.fn.String()+" "+fr.pos(), fr.stack())
		}
	}
	checkSym(lenV, instr.Len.Type(), "len")
	checkSym(capV, instr.Cap.Type(), "cap")
	var n, c int64
	if _, ok := lenV.(*Term); ok && lim.AllocCap < 0 {
		fr.i.pc.cuts = append(fr.i.pc.cuts, "symbolic allocation size at "+fr.pos()+": only the size obligation is decided")
		panic(pathAbort{"cut", "symbolic allocation size (alloc_cap<0)"})
	}
	if tm, ok := lenV.(*Term); ok {
		n = int64(fr.i.pc.concretize(tm, lim.AllocCap, "make len at "+fr.pos()).Uint64())
	} else {
		n = asInt64(lenV)
	}
	if instr.Cap == instr.Len {
		c = n
	} else if tm, ok := capV.(*Term); ok {
		c = int64(fr.i.pc.concretize(tm, lim.AllocCap, "make cap at "+fr.pos()).Uint64())
	} else {
		c = asInt64(capV)
	}
	if n < 0 || c < n {
		rtPanic(fr, "makeslice: len out of range")
	}
	if c > 64<<20 {
		rtPanic(fr, fmt.Sprintf("makeslice: allocation of %d elements (treated as out of memory)", c))
	}
	s := make([]value, c)
	tElt := instr.Type().Underlying().(*types.Slice).Elem()
	z := zero(tElt)
	switch z.(type) {
	case structure, array:
		for i := range s {
			s[i] = zero(tElt)
		}
	default:
		for i := range s {
			s[i] = z
		}
	}
	return s[:n]
}

func slice(fr *frame, x, lo, hi, max value, instr *ssa.Slice) value {
	var Len, Cap int
	switch x := x.(type) {
	case string:
		Len = len(x)
		Cap = Len
	case symStr:
		Len = len(x)
		Cap = Len
	case []value:
		Len = len(x)
		Cap = cap(x)
	case *value:
		if x == nil {
			rtPanic(fr, "invalid memory address or nil pointer dereference")
		}
		a := (*x).(array)
		Len = len(a)
		Cap = cap(a)
	case poison:
		panic(engineFault{"slice of value from failed initialiser: " + x.why})
	}
	conc := func(v value, t ssa.Value, limit int, what string) int64 {
		if tm, ok := v.(*Term); ok {
			_, signed, _ := intInfo(t.Type())
			t64 := to64(fr.st(), tm, signed)
			if !fr.i.pc.branch(fr.st().ULe(t64, fr.st().BVu(uint64(limit), 64))) {
				rtPanic(fr, fmt.Sprintf("slice bounds out of range [symbolic %s] with capacity %d", what, limit))
			}
			return int64(fr.i.pc.concretize(t64, fr.i.cfg.Lim.ConcretizeCap, "slice bound at "+fr.pos()).Uint64())
		}
		if u, ok := v.(uint64); ok && u > 1<<62 {
			return -1
		}
		if u, ok := v.(uint); ok && u > 1<<62 {
			return -1
		}
		return asInt64(v)
	}
	l := int64(0)
	m := int64(Cap)
	if max != nil {
		m = conc(max, instr.Max, Cap, "max")
	}
	h := int64(Len)
	if hi != nil {
		h = conc(hi, instr.High, Cap, "high")
	}
	if lo != nil {
		l = conc(lo, instr.Low, Cap, "low")
	}
	if m < 0 || m > int64(Cap) {
		rtPanic(fr, fmt.Sprintf("slice bounds out of range [::%d] with capacity %d", m, Cap))
	}
	if h < 0 || h > m {
		rtPanic(fr, fmt.Sprintf("slice bounds out of range [:%d] with capacity %d", h, m))
	}
	if l < 0 || l > h {
		rtPanic(fr, fmt.Sprintf("slice bounds out of range [%d:%d]", l, h))
	}
	switch x := x.(type) {
	case string:
		return x[l:h]
	case symStr:
		return normStr(x[l:h:h])
	case []value:
		return x[l:h:m]
	case *value:
		a := (*x).(array)
		return []value(a)[l:h:m]
	}
	panic(engineFault{fmt.Sprintf("slice: unexpected X type: %T", x)})
}

func sliceToArrayPointer(fr *frame, t_dst, t_src types.Type, x value) value {
	if _, ok := t_src.Underlying().(*types.Slice); ok {
		if ptr, ok := t_dst.Underlying().(*types.Pointer); ok {
			if arr, ok := ptr.Elem().Underlying().(*types.Array); ok {
				x := x.([]value)
				if arr.Len() > int64(len(x)) {
					rtPanic(fr, "cannot convert slice to array pointer: length mismatch")
				}
				if x == nil {
					return zero(t_dst)
				}
				v := value(array(x[:arr.Len():arr.Len()]))
				return &v
			}
		}
	}
	panic(engineFault{fmt.Sprintf("unsupported conversion: %s  -> %s", t_src, t_dst)})
}

// ---- type assertion

func typeAssert(fr *frame, instr *ssa.TypeAssert, itf iface) value {
	var v value
	err := ""
	if itf.t == nil {
		err = fmt.Sprintf("interface conversion: interface is nil, not %s", instr.AssertedType)
	} else if idst, ok := instr.AssertedType.Underlying().(*types.Interface); ok {
		v = itf
		err = checkInterface(fr.i, idst, itf)
	} else if types.Identical(itf.t, instr.AssertedType) {
		v = itf.v
	} else {
		err = fmt.Sprintf("interface conversion: interface is %s, not %s", itf.t, instr.AssertedType)
	}
	if err != "" {
		if !instr.CommaOk {
			rtPanic(fr, err)
		}
		return tuple{zero(instr.AssertedType), false}
	}
	if instr.CommaOk {
		return tuple{v, true}
	}
	return v
}

// ---- conversions

func conv(fr *frame, t_dst, t_src types.Type, x value) value {
	ut_src := t_src.Underlying()
	ut_dst := t_dst.Underlying()
	switch xv := x.(type) {
	case opaqueFloat:
		if b, ok := ut_dst.(*types.Basic); ok && b.Info()&types.IsFloat != 0 {
			return x
		}
		panic(engineFault{"conversion of opaque float to " + t_dst.String()})
	case *Term:
		st := fr.st()
		ws, ssigned, ok1 := intInfo(t_src)
		wd, _, ok2 := intInfo(t_dst)
		if ok1 && ok2 {
			var r *Term
			switch {
			case wd == ws:
				r = xv
			case wd < ws:
				r = st.Extract(xv, wd-1, 0)
			case ssigned:
				r = st.SExt(xv, wd-ws)
			default:
				r = st.ZExt(xv, wd-ws)
			}
			return lower(t_dst, r)
		}
		if b, ok := ut_dst.(*types.Basic); ok && b.Info()&types.IsFloat != 0 {
			return opaqueFloat{}
		}
		if isBoolType(t_src) && isBoolType(t_dst) {
			return x
		}
		panic(engineFault{fmt.Sprintf("symbolic conversion %s -> %s at %s", t_src, t_dst, fr.pos())})
	case symStr:
		if sl, ok := ut_dst.(*types.Slice); ok {
			if b, ok := sl.Elem().Underlying().(*types.Basic); ok && b.Kind() == types.Byte {
				out := make([]value, len(xv))
				copy(out, xv)
				return out
			}
		}
		if b, ok := ut_dst.(*types.Basic); ok && b.Kind() == types.String {
			return x
		}
		panic(engineFault{"conversion of symbolic string to " + t_dst.String()})
	case []value:
		if sl, ok := ut_src.(*types.Slice); ok {
			if b, ok := sl.Elem().Underlying().(*types.Basic); ok && b.Kind() == types.Byte {
				anySym := false
				for _, e := range xv {
					if _, s := e.(*Term); s {
						anySym = true
						break
					}
				}
				if anySym {
					out := make(symStr, len(xv))
					copy(out, xv)
					return out
				}
			}
		}
	case poison:
		panic(engineFault{"conversion of value from failed initialiser: " + xv.why})
	}
	if p, ok := ut_dst.(*types.Pointer); ok {
		// unsafe.Pointer -> *T : not representable
		_ = p
		if b, ok := ut_src.(*types.Basic); ok && b.Kind() == types.UnsafePointer {
			panic(engineFault{"unsafe.Pointer conversion at " + fr.pos()})
		}
	}
	if b, ok := ut_dst.(*types.Basic); ok && b.Kind() == types.UnsafePointer {
		panic(engineFault{"conversion to unsafe.Pointer at " + fr.pos()})
	}
	return convConcrete(t_dst, t_src, x)
}

// ---- strings with symbolic bytes

func normStr(s symStr) value {
	for _, e := range s {
		if _, ok := e.(*Term); ok {
			return s
		}
	}
	b := make([]byte, len(s))
	for i, e := range s {
		b[i] = e.(uint8)
	}
	return string(b)
}

func toSymStr(v value) symStr {
	switch x := v.(type) {
	case symStr:
		return x
	case string:
		out := make(symStr, len(x))
		for i := 0; i < len(x); i++ {
			out[i] = x[i]
		}
		return out
	}
	panic(engineFault{fmt.Sprintf("toSymStr %T", v)})
}

func strEq(fr *frame, a symStr, y value) *Term {
	st := fr.st()
	b := toSymStr(y)
	if len(a) != len(b) {
		return st.False()
	}
	r := st.True()
	for i := range a {
		r = st.And(r, st.Eq(lift(st, a[i]), lift(st, b[i])))
		if r.isFalse() {
			return r
		}
	}
	return r
}

func strBinop(fr *frame, op token.Token, x, y value) value {
	st := fr.st()
	a, b := toSymStr(x), toSymStr(y)
	low := func(t *Term) value { return lower(types.Typ[types.Bool], t) }
	switch op {
	case token.ADD:
		out := make(symStr, 0, len(a)+len(b))
		out = append(out, a...)
		out = append(out, b...)
		return normStr(out)
	case token.EQL:
		return low(strEq(fr, a, b))
	case token.NEQ:
		return low(st.Not(strEq(fr, a, b)))
	case token.LSS, token.LEQ, token.GTR, token.GEQ:
		if op == token.GTR || op == token.GEQ {
			a, b = b, a
			if op == token.GTR {
				op = token.LSS
			} else {
				op = token.LEQ
			}
		}
		// lexicographic a < b (or <=)
		n := len(a)
		if len(b) < n {
			n = len(b)
		}
		var tail *Term
		if op == token.LSS {
			tail = st.Bool(len(a) < len(b))
		} else {
			tail = st.Bool(len(a) <= len(b))
		}
		r := tail
		for i := n - 1; i >= 0; i-- {
			ai, bi := lift(st, a[i]), lift(st, b[i])
			r = st.Ite(st.Eq(ai, bi), r, st.ULt(ai, bi))
		}
		return low(r)
	}
	panic(engineFault{"string op " + op.String() + " on symbolic string"})
}

// ---- channels as queues

type chanQ struct {
	buf    []value
	cap    int
	closed bool
}

func chanSend(fr *frame, c value, v value) {
	q := c.(*chanQ)
	if q == nil {
		panic(pathAbort{"blocked", "send on nil channel at " + fr.pos()})
	}
	if q.closed {
		panic(targetPanic{v: iface{fr.i.runtimeErrorString, "send on closed channel"}, runtime: true, site: fr.fn.String() + " " + fr.pos(), stack: fr.stack()})
	}
	if len(q.buf) >= q.cap {
		panic(pathAbort{"blocked", "send on full channel at " + fr.fn.String() + " " + fr.pos()})
	}
	q.buf = append(q.buf, v)
}

func chanRecv(fr *frame, c value, elem types.Type) (value, bool) {
	q := c.(*chanQ)
	if q == nil {
		panic(pathAbort{"blocked", "receive from nil channel at " + fr.pos()})
	}
	if len(q.buf) > 0 {
		v := q.buf[0]
		q.buf = q.buf[1:]
		return v, true
	}
	if q.closed {
		return zero(elem), false
	}
	panic(pathAbort{"blocked", "receive from empty channel at " + fr.fn.String() + " " + fr.pos()})
}

func doSelect(fr *frame, instr *ssa.Select) value {
	var ready []int
	for i, st := range instr.States {
		q := fr.get(st.Chan).(*chanQ)
		if q == nil {
			continue
		}
		if st.Dir == types.RecvOnly {
			if len(q.buf) > 0 || q.closed {
				ready = append(ready, i)
			}
		} else if q.closed || len(q.buf) < q.cap {
			ready = append(ready, i)
		}
	}
	chosen := -1
	if len(ready) == 0 {
		if instr.Blocking {
			panic(pathAbort{"blocked", "select with no ready case at " + fr.fn.String() + " " + fr.pos()})
		}
	} else {
		chosen = ready[fr.i.pc.choose(len(ready))]
	}
	recvOk := false
	var recv value
	if chosen >= 0 {
		st := instr.States[chosen]
		if st.Dir == types.RecvOnly {
			recv, recvOk = chanRecv(fr, fr.get(st.Chan), st.Chan.Type().Underlying().(*types.Chan).Elem())
		} else {
			chanSend(fr, fr.get(st.Chan), fr.get(st.Send))
		}
	}
	r := tuple{chosen, recvOk}
	for i, st := range instr.States {
		if st.Dir == types.RecvOnly {
			var v value
			if i == chosen && recvOk {
				v = recv
			} else {
				v = zero(st.Chan.Type().Underlying().(*types.Chan).Elem())
			}
			r = append(r, v)
		}
	}
	return r
}

// ---- maps: insertion-ordered association lists with symbolic key equality

type mapEnt struct {
	k, v    value
	deleted bool
}

type symMap struct {
	ents  []*mapEnt
	kt    types.Type
	index map[string]int // canonical concrete key -> position
	nsym  int            // entries whose key has no canonical concrete form
}

func newSymMap(kt types.Type) *symMap {
	return &symMap{kt: kt, index: make(map[string]int)}
}

// canonKey renders a fully concrete key; ok=false if it contains symbolic parts.
func canonKey(sb *strings.Builder, v value) bool {
	switch x := v.(type) {
	case bool, int, int8, int16, int32, int64, uint, uint8, uint16, uint32, uint64, uintptr, float32, float64, complex64, complex128:
		fmt.Fprintf(sb, "%T:%v;", x, x)
	case string:
		fmt.Fprintf(sb, "s%d:%s;", len(x), x)
	case *value:
		fmt.Fprintf(sb, "p%p;", x)
	case *chanQ:
		fmt.Fprintf(sb, "c%p;", x)
	case array:
		sb.WriteString("[")
		for _, e := range x {
			if !canonKey(sb, e) {
				return false
			}
		}
		sb.WriteString("]")
	case structure:
		sb.WriteString("{")
		for _, e := range x {
			if !canonKey(sb, e) {
				return false
			}
		}
		sb.WriteString("}")
	case iface:
		if x.t == nil {
			sb.WriteString("nil;")
			return true
		}
		sb.WriteString("i(" + x.t.String() + ")")
		return canonKey(sb, x.v)
	case rtype:
		sb.WriteString("rt(" + x.t.String() + ")")
	default:
		return false
	}
	return true
}

func (m *symMap) find(fr *frame, k value) int {
	var sb strings.Builder
	conc := canonKey(&sb, k)
	if conc && m.nsym == 0 {
		if p, ok := m.index[sb.String()]; ok {
			return p
		}
		return -1
	}
	for i, e := range m.ents {
		c := eqTerm(fr, m.kt, e.k, k)
		if c.op == OpConst {
			if c.val.Sign() != 0 {
				return i
			}
			continue
		}
		if fr.i.pc.branch(c) {
			return i
		}
	}
	return -1
}

func (m *symMap) insert(fr *frame, k, v value) {
	if p := m.find(fr, k); p >= 0 {
		m.ents[p].v = v
		return
	}
	var sb strings.Builder
	if canonKey(&sb, k) {
		m.index[sb.String()] = len(m.ents)
	} else {
		m.nsym++
	}
	m.ents = append(m.ents, &mapEnt{k: k, v: v})
}

func (m *symMap) delete(fr *frame, k value) {
	p := m.find(fr, k)
	if p < 0 {
		return
	}
	var sb strings.Builder
	if !canonKey(&sb, m.ents[p].k) {
		m.nsym--
	}
	m.ents[p].deleted = true
	m.ents = append(append([]*mapEnt(nil), m.ents[:p]...), m.ents[p+1:]...)
	m.index = make(map[string]int)
	for i, e := range m.ents {
		var sb strings.Builder
		if canonKey(&sb, e.k) {
			m.index[sb.String()] = i
		}
	}
}

func (m *symMap) len() int {
	if m == nil {
		return 0
	}
	return len(m.ents)
}

func lookup(fr *frame, instr *ssa.Lookup, x, idx value) value {
	switch x := x.(type) {
	case *symMap:
		var v value
		ok := false
		if x != nil {
			if p := x.find(fr, idx); p >= 0 {
				v, ok = x.ents[p].v, true
			}
		}
		if !ok {
			v = zero(instr.X.Type().Underlying().(*types.Map).Elem())
		} else {
			v = copyVal(v)
		}
		if instr.CommaOk {
			v = tuple{v, ok}
		}
		return v
	case poison:
		panic(engineFault{"lookup in map from failed initialiser: " + x.why})
	}
	panic(engineFault{fmt.Sprintf("unexpected x type in Lookup: %T", x)})
}

// copyVal copies aggregate values (structs/arrays are values in Go).
func copyVal(v value) value {
	switch x := v.(type) {
	case structure:
		a := make(structure, len(x))
		for i := range x {
			a[i] = copyVal(x[i])
		}
		return a
	case array:
		a := make(array, len(x))
		for i := range x {
			a[i] = copyVal(x[i])
		}
		return a
	}
	return v
}

type symMapIter struct {
	ents []*mapEnt
	pos  int
}

func (it *symMapIter) next() tuple {
	for it.pos < len(it.ents) {
		e := it.ents[it.pos]
		it.pos++
		if !e.deleted {
			return tuple{true, copyVal(e.k), copyVal(e.v)}
		}
	}
	return tuple{false, nil, nil}
}

var perms3 = [][]int{{0, 1, 2}, {0, 2, 1}, {1, 0, 2}, {1, 2, 0}, {2, 0, 1}, {2, 1, 0}}

func rangeIter(fr *frame, x value, t types.Type) iter {
	switch x := x.(type) {
	case *symMap:
		if x == nil {
			return &symMapIter{}
		}
		ents := append([]*mapEnt(nil), x.ents...)
		if fr.i.cfg.MapOrders && fr.i.inInit == 0 {
			switch len(ents) {
			case 2:
				if fr.i.pc.choose(2) == 1 {
					ents[0], ents[1] = ents[1], ents[0]
				}
			case 3:
				p := perms3[fr.i.pc.choose(6)]
				ents = []*mapEnt{ents[p[0]], ents[p[1]], ents[p[2]]}
			}
		}
		return &symMapIter{ents: ents}
	case string:
		return &stringIter{Reader: strings.NewReader(x)}
	case symStr:
		panic(engineFault{"range over string with symbolic bytes at " + fr.pos()})
	case poison:
		panic(engineFault{"range over value from failed initialiser: " + x.why})
	}
	panic(engineFault{fmt.Sprintf("cannot range over %T", x)})
}

// ---- builtins

func callBuiltin(caller *frame, callpos token.Pos, fn *ssa.Builtin, args []value) value {
	switch fn.Name() {
	case "append":
		if len(args) == 1 {
			return args[0]
		}
		arg0 := args[0].([]value)
		switch s := args[1].(type) {
		case string:
			for i := 0; i < len(s); i++ {
				arg0 = append(arg0, s[i])
			}
			return arg0
		case symStr:
			return append(arg0, s...)
		}
		src := args[1].([]value)
		n0 := len(arg0)
		out := append(arg0, src...)
		// aggregates are values: copy them
		for i := n0; i < len(out); i++ {
			switch out[i].(type) {
			case structure, array:
				out[i] = copyVal(out[i])
			}
		}
		return out

	case "copy":
		dst := args[0].([]value)
		switch s := args[1].(type) {
		case string:
			n := len(s)
			if len(dst) < n {
				n = len(dst)
			}
			for i := 0; i < n; i++ {
				dst[i] = s[i]
			}
			return n
		case symStr:
			return copy(dst, s)
		}
		src := args[1].([]value)
		n := len(src)
		if len(dst) < n {
			n = len(dst)
		}
		if n > 0 {
			switch src[0].(type) {
			case structure, array:
				tmp := make([]value, n)
				for i := 0; i < n; i++ {
					tmp[i] = copyVal(src[i])
				}
				copy(dst, tmp)
				return n
			}
		}
		return copy(dst, src)

	case "close":
		q := args[0].(*chanQ)
		if q == nil || q.closed {
			rtPanic(caller, "close of nil or closed channel")
		}
		q.closed = true
		return nil

	case "delete":
		if m := args[0].(*symMap); m != nil {
			m.delete(caller, args[1])
		}
		return nil

	case "print", "println":
		return nil

	case "len":
		switch x := args[0].(type) {
		case string:
			return len(x)
		case symStr:
			return len(x)
		case array:
			return len(x)
		case *value:
			return len((*x).(array))
		case []value:
			return len(x)
		case *symMap:
			return x.len()
		case *chanQ:
			if x == nil {
				return 0
			}
			return len(x.buf)
		case poison:
			panic(engineFault{"len of value from failed initialiser: " + x.why})
		default:
			panic(engineFault{fmt.Sprintf("len: illegal operand: %T", x)})
		}

	case "cap":
		switch x := args[0].(type) {
		case array:
			return cap(x)
		case *value:
			return cap((*x).(array))
		case []value:
			return cap(x)
		case *chanQ:
			if x == nil {
				return 0
			}
			return x.cap
		default:
			panic(engineFault{fmt.Sprintf("cap: illegal operand: %T", x)})
		}

	case "min", "max":
		sig := fn.Type().(*types.Signature)
		t := sig.Params().At(0).Type()
		x := args[0]
		for _, y := range args[1:] {
			var c value
			if fn.Name() == "min" {
				c = binop(caller, token.LSS, t, t, y, x)
			} else {
				c = binop(caller, token.GTR, t, t, y, x)
			}
			switch c := c.(type) {
			case bool:
				if c {
					x = y
				}
			case *Term:
				st := caller.st()
				x = lower(t, st.Ite(c, lift(st, y), lift(st, x)))
			}
		}
		return x

	case "real":
		switch c := args[0].(type) {
		case complex64:
			return real(c)
		case complex128:
			return real(c)
		}
	case "imag":
		switch c := args[0].(type) {
		case complex64:
			return imag(c)
		case complex128:
			return imag(c)
		}
	case "complex":
		switch f := args[0].(type) {
		case float32:
			return complex(f, args[1].(float32))
		case float64:
			return complex(f, args[1].(float64))
		}

	case "panic":
		panic(targetPanic{v: args[0], site: caller.fn.String() + " " + caller.pos(), stack: caller.stack()})

	case "recover":
		return doRecover(caller)

	case "ssa:wrapnilchk":
		recv := args[0]
		if recv.(*value) == nil {
			rtPanic(caller, fmt.Sprintf("value method (%s).%s called using nil pointer", args[1], args[2]))
		}
		return recv

	case "ssa:deferstack":
		return &caller.defers
	}
	panic(engineFault{"unknown built-in: " + fn.Name()})
}

// ---- rendering of values under a model (for Observe / diagnostics)

func renderValue(st *TermStore, m *Model, v value, depth int) string {
	if depth > 6 {
		return "…"
	}
	switch x := v.(type) {
	case nil:
		return "nil"
	case *Term:
		val := st.Eval(x, m)
		if x.sort == SortBool {
			return fmt.Sprint(val.Sign() != 0)
		}
		if x.sort == SortInt {
			return val.String()
		}
		return "0x" + val.Text(16)
	case bool, int, int8, int16, int32, int64, uint, uint8, uint16, uint32, uint64, uintptr, float32, float64:
		switch y := x.(type) {
		case uint8:
			return fmt.Sprintf("0x%x", y)
		case uint16:
			return fmt.Sprintf("0x%x", y)
		case uint32:
			return fmt.Sprintf("0x%x", y)
		case uint64:
			return fmt.Sprintf("0x%x", y)
		case uint:
			return fmt.Sprintf("0x%x", y)
		case uintptr:
			return fmt.Sprintf("0x%x", y)
		case int8:
			return fmt.Sprintf("0x%x", uint8(y))
		case int16:
			return fmt.Sprintf("0x%x", uint16(y))
		case int32:
			return fmt.Sprintf("0x%x", uint32(y))
		case int64:
			return fmt.Sprintf("0x%x", uint64(y))
		case int:
			return fmt.Sprintf("0x%x", uint64(y))
		}
		return fmt.Sprint(x)
	case string:
		return fmt.Sprintf("%q", x)
	case symStr:
		b := make([]byte, len(x))
		for i, e := range x {
			b[i] = byte(st.Eval(lift(st, e), m).Uint64())
		}
		return fmt.Sprintf("%q", string(b))
	case []value:
		return renderList(st, m, x, depth)
	case array:
		return renderList(st, m, x, depth)
	case structure:
		var sb strings.Builder
		sb.WriteString("{")
		for i, e := range x {
			if i > 0 {
				sb.WriteString(" ")
			}
			sb.WriteString(renderValue(st, m, e, depth+1))
		}
		sb.WriteString("}")
		return sb.String()
	case *value:
		if x == nil {
			return "nil"
		}
		return "&" + renderValue(st, m, *x, depth+1)
	case iface:
		if x.t == nil {
			return "nil"
		}
		return renderValue(st, m, x.v, depth+1)
	case *bigPayload:
		return x.render(st, m)
	}
	return fmt.Sprintf("<%T>", v)
}

func renderList(st *TermStore, m *Model, x []value, depth int) string {
	allBytes := len(x) > 0
	for _, e := range x {
		switch t := e.(type) {
		case uint8:
		case *Term:
			if t.sort != 8 {
				allBytes = false
			}
		default:
			allBytes = false
		}
	}
	if allBytes {
		var sb strings.Builder
		sb.WriteString("hex:")
		for _, e := range x {
			fmt.Fprintf(&sb, "%02x", st.Eval(lift(st, e), m).Uint64())
		}
		return sb.String()
	}
	var sb strings.Builder
	sb.WriteString("[")
	for i, e := range x {
		if i > 0 {
			sb.WriteString(" ")
		}
		sb.WriteString(renderValue(st, m, e, depth+1))
	}
	sb.WriteString("]")
	return sb.String()
}

var _ = utf8.RuneError
var _ = big.NewInt
