// Copyright 2013 The Go Authors. All rights reserved.
// Use of this source code is governed by a BSD-style
// license that can be found in the LICENSE file.

package interp

// Values
//
// All interpreter values are "boxed" in the empty interface, value.
// The range of possible dynamic types within value are:
//
// - bool
// - numbers (all built-in int/float/complex types are distinguished)
// - string
// - map[value]value --- maps for which  usesBuiltinMap(keyType)
//   *hashmap        --- maps for which !usesBuiltinMap(keyType)
// - chan value
// - []value --- slices
// - iface --- interfaces.
// - structure --- structs.  Fields are ordered and accessed by numeric indices.
// - array --- arrays.
// - *value --- pointers.  Careful: *value is a distinct type from *array etc.
// - *ssa.Function \
//   *ssa.Builtin   } --- functions.  A nil 'func' is always of type *ssa.Function.
//   *closure      /
// - tuple --- as returned by Return, Next, "value,ok" modes, etc.
// - iter --- iterators from 'range' over map or string.
// - bad --- a poison pill for locals that have gone out of scope.
// - rtype -- the interpreter's concrete implementation of reflect.Type
// - **deferred -- the address of a frame's defer stack for a Defer._Stack.
//
// Note that nil is not on this list.
//
// Pay close attention to whether or not the dynamic type is a pointer.
// The compiler cannot help you since value is an empty interface.

import (
	"bytes"
	"fmt"
	"go/types"
	"io"
		"strings"
		"unsafe"

	"golang.org/x/tools/go/ssa"
)

type value interface{}

type tuple []value

type array []value

type iface struct {
	t types.Type // never an "untyped" type
	v value
}

type structure []value

// For map, array, *array, slice, string or channel.
type iter interface {
	// next returns a Tuple (key, value, ok).
	// key and value are unaliased, e.g. copies of the sequence element.
	next() tuple
}

type closure struct {
	Fn  *ssa.Function
	Env []value
}

type bad struct{}

type rtype struct {
	t types.Type
}

func (x array) eq(t types.Type, _y interface{}) bool {
	y := _y.(array)
	tElt := t.Underlying().(*types.Array).Elem()
	for i, xi := range x {
		if !equals(tElt, xi, y[i]) {
			return false
		}
	}
	return true
}

func (x structure) eq(t types.Type, _y interface{}) bool {
	y := _y.(structure)
	tStruct := t.Underlying().(*types.Struct)
	for i, n := 0, tStruct.NumFields(); i < n; i++ {
		if f := tStruct.Field(i); !f.Anonymous() {
			if !equals(f.Type(), x[i], y[i]) {
				return false
			}
		}
	}
	return true
}

// nil-tolerant variant of types.Identical.
func sameType(x, y types.Type) bool {
	if x == nil {
		return y == nil
	}
	return y != nil && types.Identical(x, y)
}

func (x iface) eq(t types.Type, _y interface{}) bool {
	y := _y.(iface)
	return sameType(x.t, y.t) && (x.t == nil || equals(x.t, x.v, y.v))
}

func (x rtype) eq(_ types.Type, y interface{}) bool {
	return types.Identical(x.t, y.(rtype).t)
}

// equals returns true iff x and y are equal according to Go's
// linguistic equivalence relation for type t.
// In a well-typed program, the dynamic types of x and y are
// guaranteed equal.
func equals(t types.Type, x, y value) bool {
	switch x := x.(type) {
	case bool:
		return x == y.(bool)
	case int:
		return x == y.(int)
	case int8:
		return x == y.(int8)
	case int16:
		return x == y.(int16)
	case int32:
		return x == y.(int32)
	case int64:
		return x == y.(int64)
	case uint:
		return x == y.(uint)
	case uint8:
		return x == y.(uint8)
	case uint16:
		return x == y.(uint16)
	case uint32:
		return x == y.(uint32)
	case uint64:
		return x == y.(uint64)
	case uintptr:
		return x == y.(uintptr)
	case float32:
		return x == y.(float32)
	case float64:
		return x == y.(float64)
	case complex64:
		return x == y.(complex64)
	case complex128:
		return x == y.(complex128)
	case string:
		return x == y.(string)
	case *value:
		return x == y.(*value)
	case *chanQ:
		return x == y.(*chanQ)
	case unsafe.Pointer:
		return x == y.(unsafe.Pointer)
	case structure:
		return x.eq(t, y)
	case array:
		return x.eq(t, y)
	case iface:
		return x.eq(t, y)
	case rtype:
		return x.eq(t, y)
	}

	// Since map, func and slice don't support comparison, this
	// case is only reachable if one of x or y is literally nil
	// (handled in eqnil) or via interface{} values.
	panic(fmt.Sprintf("comparing uncomparable type %s", t))
}

// reflect.Value struct values don't have a fixed shape, since the
// payload can be a scalar or an aggregate depending on the instance.
// So store (and load) can't simply use recursion over the shape of the
// rhs value, or the lhs, to copy the value; we need the static type
// information.  (We can't make reflect.Value a new basic data type
// because its "structness" is exposed to Go programs.)

// load returns the value of type T in *addr.
func load(T types.Type, addr *value) value {
	if p, ok := (*addr).(poison); ok {
		panic(engineFault{"read of a variable whose initialiser could not be executed: " + p.why})
	}
	switch T := T.Underlying().(type) {
	case *types.Struct:
		v := (*addr).(structure)
		a := make(structure, len(v))
		for i := range a {
			a[i] = load(T.Field(i).Type(), &v[i])
		}
		return a
	case *types.Array:
		v := (*addr).(array)
		a := make(array, len(v))
		for i := range a {
			a[i] = load(T.Elem(), &v[i])
		}
		return a
	default:
		return *addr
	}
}

// store stores value v of type T into *addr.
func store(T types.Type, addr *value, v value) {
	switch T := T.Underlying().(type) {
	case *types.Struct:
		lhs := (*addr).(structure)
		rhs := v.(structure)
		for i := range lhs {
			store(T.Field(i).Type(), &lhs[i], rhs[i])
		}
	case *types.Array:
		lhs := (*addr).(array)
		rhs := v.(array)
		for i := range lhs {
			store(T.Elem(), &lhs[i], rhs[i])
		}
	default:
		*addr = v
	}
}

// Prints in the style of built-in println.
// (More or less; in gc println is actually a compiler intrinsic and
// can distinguish println(1) from println(interface{}(1)).)
func writeValue(buf *bytes.Buffer, v value) {
	switch v := v.(type) {
	case nil, bool, int, int8, int16, int32, int64, uint, uint8, uint16, uint32, uint64, uintptr, float32, float64, complex64, complex128, string:
		fmt.Fprintf(buf, "%v", v)

	case *symMap:
		fmt.Fprintf(buf, "map[%d entries]", v.len())
	case *chanQ:
		fmt.Fprintf(buf, "chan %p", v)

	case *value:
		if v == nil {
			buf.WriteString("<nil>")
		} else {
			fmt.Fprintf(buf, "%p", v)
		}

	case iface:
		fmt.Fprintf(buf, "(%s, ", v.t)
		writeValue(buf, v.v)
		buf.WriteString(")")

	case structure:
		buf.WriteString("{")
		for i, e := range v {
			if i > 0 {
				buf.WriteString(" ")
			}
			writeValue(buf, e)
		}
		buf.WriteString("}")

	case array:
		buf.WriteString("[")
		for i, e := range v {
			if i > 0 {
				buf.WriteString(" ")
			}
			writeValue(buf, e)
		}
		buf.WriteString("]")

	case []value:
		buf.WriteString("[")
		for i, e := range v {
			if i > 0 {
				buf.WriteString(" ")
			}
			writeValue(buf, e)
		}
		buf.WriteString("]")

	case *ssa.Function, *ssa.Builtin, *closure:
		fmt.Fprintf(buf, "%p", v) // (an address)

	case rtype:
		buf.WriteString(v.t.String())

	case tuple:
		// Unreachable in well-formed Go programs
		buf.WriteString("(")
		for i, e := range v {
			if i > 0 {
				buf.WriteString(", ")
			}
			writeValue(buf, e)
		}
		buf.WriteString(")")

	default:
		fmt.Fprintf(buf, "<%T>", v)
	}
}

// Implements printing of Go values in the style of built-in println.
func toString(v value) string {
	var b bytes.Buffer
	writeValue(&b, v)
	return b.String()
}

// ------------------------------------------------------------------------
// Iterators

type stringIter struct {
	*strings.Reader
	i int
}

func (it *stringIter) next() tuple {
	okv := make(tuple, 3)
	ch, n, err := it.ReadRune()
	ok := err != io.EOF
	okv[0] = ok
	if ok {
		okv[1] = it.i
		okv[2] = ch
	}
	it.i += n
	return okv
}

