package interp

// math/big.Int modelled as an SMT Int (symbolic) or a host *big.Int (concrete).
// The payload lives in the `abs` field of the target's big.Int struct.

import (
	"go/types"
	"math/big"
	"strings"
)

type bigPayload struct {
	c *big.Int
	t *Term
}

func (p *bigPayload) render(st *TermStore, m *Model) string {
	if p.t != nil {
		return st.Eval(p.t, m).String()
	}
	return p.c.String()
}

func newBigObj(fr *frame) *value {
	s := value(structure{false, []value(nil)})
	return &s
}

func getBigS(s structure) *bigPayload {
	switch p := s[1].(type) {
	case *bigPayload:
		return p
	case []value:
		if len(p) == 0 {
			return &bigPayload{c: new(big.Int)}
		}
	}
	panic(engineFault{"big.Int with foreign representation"})
}

func getBig(fr *frame, v value) *bigPayload {
	p, ok := v.(*value)
	if !ok {
		panic(engineFault{"big.Int operand is not a pointer"})
	}
	if p == nil {
		rtPanic(fr.caller, "invalid memory address or nil pointer dereference (nil *big.Int)")
	}
	return getBigS((*p).(structure))
}

func setBig(p *value, b *bigPayload) {
	(*p).(structure)[1] = b
}

func (b *bigPayload) term(st *TermStore) *Term {
	if b.t != nil {
		return b.t
	}
	return st.IntC(b.c)
}

func mkBig(st *TermStore, t *Term) *bigPayload {
	if t.op == OpConst {
		return &bigPayload{c: new(big.Int).Set(t.val)}
	}
	return &bigPayload{t: t}
}

func bigDivZero(fr *frame, y *bigPayload) {
	st := fr.st()
	if y.t == nil {
		if y.c.Sign() == 0 {
			rtPanic(fr.caller, "division by zero")
		}
		return
	}
	if fr.cond(lower(types.Typ[types.Bool], st.Eq(y.t, st.IntC(new(big.Int))))) {
		rtPanic(fr.caller, "division by zero")
	}
}

// truncated quotient/remainder in Int terms
func truncQuoRem(st *TermStore, x, y *Term) (*Term, *Term) {
	zero := st.IntC(new(big.Int))
	ax, ay := st.IAbs(x), st.IAbs(y)
	q := st.IDiv(ax, ay)
	neg := st.Not(st.Eq(st.ILt(x, zero), st.ILt(y, zero)))
	q = st.Ite(neg, st.INeg(q), q)
	r := st.ISub(x, st.IMul(y, q))
	return q, r
}

func bigIntrinsic(name string) intrinsic {
	if name == "math/big.NewInt" {
		return func(fr *frame, a []value) value {
			p := newBigObj(fr)
			st := fr.st()
			setBig(p, mkBig(st, st.BV2IntSigned(lift(st, a[0]))))
			return p
		}
	}
	const pre = "(*math/big.Int)."
	if !strings.HasPrefix(name, pre) {
		return nil
	}
	m := name[len(pre):]
	bin := func(f func(st *TermStore, x, y *Term) *Term, g func(z, x, y *big.Int) *big.Int, div bool) intrinsic {
		return func(fr *frame, a []value) value {
			z := a[0].(*value)
			if z == nil {
				rtPanic(fr.caller, "invalid memory address or nil pointer dereference (nil *big.Int receiver)")
			}
			x, y := getBig(fr, a[1]), getBig(fr, a[2])
			if div {
				bigDivZero(fr, y)
			}
			if x.t == nil && y.t == nil {
				setBig(z, &bigPayload{c: g(new(big.Int), x.c, y.c)})
			} else {
				st := fr.st()
				setBig(z, mkBig(st, f(st, x.term(st), y.term(st))))
			}
			return z
		}
	}
	un := func(f func(st *TermStore, x *Term) *Term, g func(z, x *big.Int) *big.Int) intrinsic {
		return func(fr *frame, a []value) value {
			z := a[0].(*value)
			if z == nil {
				rtPanic(fr.caller, "invalid memory address or nil pointer dereference (nil *big.Int receiver)")
			}
			x := getBig(fr, a[1])
			if x.t == nil {
				setBig(z, &bigPayload{c: g(new(big.Int), x.c)})
			} else {
				st := fr.st()
				setBig(z, mkBig(st, f(st, x.t)))
			}
			return z
		}
	}
	concOnly := func(what string, f func(fr *frame, a []value) value) intrinsic {
		return func(fr *frame, a []value) value {
			for _, v := range a {
				if p, ok := v.(*value); ok && p != nil {
					if s, ok := (*p).(structure); ok && len(s) == 2 {
						if bp, ok := s[1].(*bigPayload); ok && bp.t != nil {
							panic(engineFault{"big.Int." + what + " on a symbolic value (called from " + callerName(fr.caller) + ")"})
						}
					}
				}
				if isSym(v) {
					panic(engineFault{"big.Int." + what + " with a symbolic argument (called from " + callerName(fr.caller) + ")"})
				}
			}
			return f(fr, a)
		}
	}
	switch m {
	case "Add":
		return bin((*TermStore).IAdd, (*big.Int).Add, false)
	case "Sub":
		return bin((*TermStore).ISub, (*big.Int).Sub, false)
	case "Mul":
		return bin((*TermStore).IMul, (*big.Int).Mul, false)
	case "Div":
		return bin((*TermStore).IDiv, (*big.Int).Div, true)
	case "Mod":
		return bin((*TermStore).IMod, (*big.Int).Mod, true)
	case "Quo":
		return bin(func(st *TermStore, x, y *Term) *Term { q, _ := truncQuoRem(st, x, y); return q }, (*big.Int).Quo, true)
	case "Rem":
		return bin(func(st *TermStore, x, y *Term) *Term { _, r := truncQuoRem(st, x, y); return r }, (*big.Int).Rem, true)
	case "Neg":
		return un((*TermStore).INeg, (*big.Int).Neg)
	case "Abs":
		return un((*TermStore).IAbs, (*big.Int).Abs)
	case "Set":
		return un(func(st *TermStore, x *Term) *Term { return x }, (*big.Int).Set)
	case "SetInt64":
		return func(fr *frame, a []value) value {
			st := fr.st()
			setBig(a[0].(*value), mkBig(st, st.BV2IntSigned(lift(st, a[1]))))
			return a[0]
		}
	case "SetUint64":
		return func(fr *frame, a []value) value {
			st := fr.st()
			setBig(a[0].(*value), mkBig(st, st.BV2Nat(lift(st, a[1]))))
			return a[0]
		}
	case "SetBytes":
		return func(fr *frame, a []value) value {
			st := fr.st()
			bs := a[1].([]value)
			if len(bs) == 0 {
				setBig(a[0].(*value), &bigPayload{c: new(big.Int)})
				return a[0]
			}
			setBig(a[0].(*value), mkBig(st, st.BV2Nat(bytesTerm(st, bs))))
			return a[0]
		}
	case "SetBits":
		// little-endian machine words (uint256.ToBig): the value is sum(word_i * 2^(64 i))
		return func(fr *frame, a []value) value {
			st := fr.st()
			ws := a[1].([]value)
			if len(ws) == 0 {
				setBig(a[0].(*value), &bigPayload{c: new(big.Int)})
				return a[0]
			}
			var acc *Term
			for i := len(ws) - 1; i >= 0; i-- { // most significant word first
				w := lift(st, ws[i])
				if acc == nil {
					acc = w
				} else {
					acc = st.Concat(acc, w)
				}
			}
			setBig(a[0].(*value), mkBig(st, st.BV2Nat(acc)))
			return a[0]
		}
	case "SetBit":
		return concOnly("SetBit", func(fr *frame, a []value) value {
			x := getBig(fr, a[1])
			setBig(a[0].(*value), &bigPayload{c: new(big.Int).SetBit(x.c, int(asInt64(a[2])), uint(asInt64(a[3])))})
			return a[0]
		})
	case "SetString":
		return concOnly("SetString", func(fr *frame, a []value) value {
			v, ok := new(big.Int).SetString(a[1].(string), int(asInt64(a[2])))
			if !ok {
				return tuple{(*value)(nil), false}
			}
			setBig(a[0].(*value), &bigPayload{c: v})
			return tuple{a[0], true}
		})
	case "Cmp", "CmpAbs":
		return func(fr *frame, a []value) value {
			x, y := getBig(fr, a[0]), getBig(fr, a[1])
			if x.t == nil && y.t == nil {
				if m == "CmpAbs" {
					return x.c.CmpAbs(y.c)
				}
				return x.c.Cmp(y.c)
			}
			st := fr.st()
			xt, yt := x.term(st), y.term(st)
			if m == "CmpAbs" {
				xt, yt = st.IAbs(xt), st.IAbs(yt)
			}
			r := st.Ite(st.ILt(xt, yt), st.BVi(-1, 64), st.Ite(st.Eq(xt, yt), st.BVi(0, 64), st.BVi(1, 64)))
			return lower(types.Typ[types.Int], r)
		}
	case "Sign":
		return func(fr *frame, a []value) value {
			x := getBig(fr, a[0])
			if x.t == nil {
				return x.c.Sign()
			}
			st := fr.st()
			z := st.IntC(new(big.Int))
			r := st.Ite(st.ILt(x.t, z), st.BVi(-1, 64), st.Ite(st.Eq(x.t, z), st.BVi(0, 64), st.BVi(1, 64)))
			return lower(types.Typ[types.Int], r)
		}
	case "Int64":
		return func(fr *frame, a []value) value {
			x := getBig(fr, a[0])
			if x.t == nil {
				return x.c.Int64()
			}
			st := fr.st()
			// Go: int64(low64(|x|)), negated if x<0  ==  x mod 2^64 in two's complement
			return lower(types.Typ[types.Int64], st.Int2BV(x.t, 64))
		}
	case "Uint64":
		return func(fr *frame, a []value) value {
			x := getBig(fr, a[0])
			if x.t == nil {
				return x.c.Uint64()
			}
			st := fr.st()
			return lower(types.Typ[types.Uint64], st.Int2BV(st.IAbs(x.t), 64))
		}
	case "IsInt64":
		return func(fr *frame, a []value) value {
			x := getBig(fr, a[0])
			if x.t == nil {
				return x.c.IsInt64()
			}
			st := fr.st()
			lim := new(big.Int).Lsh(bigOne, 63)
			r := st.And(st.ILe(st.IntC(new(big.Int).Neg(lim)), x.t), st.ILt(x.t, st.IntC(lim)))
			return lower(types.Typ[types.Bool], r)
		}
	case "IsUint64":
		return func(fr *frame, a []value) value {
			x := getBig(fr, a[0])
			if x.t == nil {
				return x.c.IsUint64()
			}
			st := fr.st()
			lim := new(big.Int).Lsh(bigOne, 64)
			r := st.And(st.ILe(st.IntC(new(big.Int)), x.t), st.ILt(x.t, st.IntC(lim)))
			return lower(types.Typ[types.Bool], r)
		}
	case "Lsh", "Rsh":
		return func(fr *frame, a []value) value {
			x := getBig(fr, a[1])
			n := uint(fr.concreteInt(a[2], "big shift"))
			if x.t == nil {
				if m == "Lsh" {
					setBig(a[0].(*value), &bigPayload{c: new(big.Int).Lsh(x.c, n)})
				} else {
					setBig(a[0].(*value), &bigPayload{c: new(big.Int).Rsh(x.c, n)})
				}
				return a[0]
			}
			st := fr.st()
			f := st.IntC(new(big.Int).Lsh(bigOne, n))
			if m == "Lsh" {
				setBig(a[0].(*value), mkBig(st, st.IMul(x.t, f)))
			} else {
				setBig(a[0].(*value), mkBig(st, st.IDiv(x.t, f))) // floor for positive divisor, as Rsh
			}
			return a[0]
		}
	case "BitLen":
		return func(fr *frame, a []value) value {
			x := getBig(fr, a[0])
			if x.t == nil {
				return x.c.BitLen()
			}
			// decide the bit length by binary search on |x| < 2^k (each step one branch)
			st := fr.st()
			ax := st.IAbs(x.t)
			lt := func(k int) bool {
				return fr.cond(lower(types.Typ[types.Bool], st.ILt(ax, st.IntC(new(big.Int).Lsh(bigOne, uint(k))))))
			}
			if lt(520) {
				lo, hi := 0, 520 // invariant: |x| >= 2^(lo-1) (or lo==0), |x| < 2^hi
				for lo < hi {
					mid := (lo + hi) / 2
					if lt(mid) {
						hi = mid
					} else {
						lo = mid + 1
					}
				}
				return lo
			}
			panic(pathAbort{"cut", "big.Int.BitLen above 520"})
		}
	case "Bytes":
		return func(fr *frame, a []value) value {
			x := getBig(fr, a[0])
			if x.t == nil {
				bs := x.c.Bytes()
				out := make([]value, len(bs))
				for i, b := range bs {
					out[i] = b
				}
				return out
			}
			// length by forking on BitLen, contents as extracts of int2bv
			st := fr.st()
			ax := st.IAbs(x.t)
			n := 0
			for ; n <= 40; n++ {
				lim := st.IntC(new(big.Int).Lsh(bigOne, uint(8*n)))
				if fr.cond(lower(types.Typ[types.Bool], st.ILt(ax, lim))) {
					break
				}
			}
			if n > 40 {
				panic(pathAbort{"cut", "big.Int.Bytes longer than 40 bytes"})
			}
			out := make([]value, n)
			if n == 0 {
				return out
			}
			bv := st.Int2BV(ax, 8*n)
			for i := 0; i < n; i++ {
				out[i] = lower(types.Typ[types.Uint8], st.Extract(bv, 8*(n-i)-1, 8*(n-i-1)))
			}
			return out
		}
	case "Bits":
		return concOnly("Bits", func(fr *frame, a []value) value {
			ws := getBig(fr, a[0]).c.Bits()
			out := make([]value, len(ws))
			for i, w := range ws {
				out[i] = uint(w)
			}
			return out
		})
	case "String":
		return func(fr *frame, a []value) value {
			p := a[0].(*value)
			if p == nil {
				return "<nil>"
			}
			x := getBig(fr, a[0])
			if x.t == nil {
				return x.c.String()
			}
			return "<symbolic big.Int>"
		}
	case "Text":
		return concOnly("Text", func(fr *frame, a []value) value {
			return getBig(fr, a[0]).c.Text(int(asInt64(a[1])))
		})
	case "Exp":
		return concOnly("Exp", func(fr *frame, a []value) value {
			x, y := getBig(fr, a[1]), getBig(fr, a[2])
			var mm *big.Int
			if mp := a[3].(*value); mp != nil {
				mm = getBig(fr, a[3]).c
			}
			setBig(a[0].(*value), &bigPayload{c: new(big.Int).Exp(x.c, y.c, mm)})
			return a[0]
		})
	case "And", "Or", "Xor":
		return concOnly(m, func(fr *frame, a []value) value {
			x, y := getBig(fr, a[1]), getBig(fr, a[2])
			r := new(big.Int)
			switch m {
			case "And":
				r.And(x.c, y.c)
			case "Or":
				r.Or(x.c, y.c)
			default:
				r.Xor(x.c, y.c)
			}
			setBig(a[0].(*value), &bigPayload{c: r})
			return a[0]
		})
	case "Not":
		return concOnly(m, func(fr *frame, a []value) value {
			setBig(a[0].(*value), &bigPayload{c: new(big.Int).Not(getBig(fr, a[1]).c)})
			return a[0]
		})
	case "Bit":
		return concOnly(m, func(fr *frame, a []value) value {
			return getBig(fr, a[0]).c.Bit(int(asInt64(a[1])))
		})
	case "Sqrt":
		return concOnly(m, func(fr *frame, a []value) value {
			setBig(a[0].(*value), &bigPayload{c: new(big.Int).Sqrt(getBig(fr, a[1]).c)})
			return a[0]
		})
	case "FillBytes":
		return concOnly(m, func(fr *frame, a []value) value {
			buf := a[1].([]value)
			tmp := make([]byte, len(buf))
			getBig(fr, a[0]).c.FillBytes(tmp)
			for i := range buf {
				buf[i] = tmp[i]
			}
			return buf
		})
	case "DivMod", "QuoRem":
		return func(fr *frame, a []value) value {
			x, y := getBig(fr, a[1]), getBig(fr, a[2])
			bigDivZero(fr, y)
			rp := a[3].(*value)
			if x.t == nil && y.t == nil {
				q, r := new(big.Int), new(big.Int)
				if m == "DivMod" {
					q.DivMod(x.c, y.c, r)
				} else {
					q.QuoRem(x.c, y.c, r)
				}
				setBig(a[0].(*value), &bigPayload{c: q})
				setBig(rp, &bigPayload{c: r})
				return tuple{a[0], a[3]}
			}
			st := fr.st()
			xt, yt := x.term(st), y.term(st)
			var q, r *Term
			if m == "DivMod" {
				q, r = st.IDiv(xt, yt), st.IMod(xt, yt)
			} else {
				q, r = truncQuoRem(st, xt, yt)
			}
			setBig(a[0].(*value), mkBig(st, q))
			setBig(rp, mkBig(st, r))
			return tuple{a[0], a[3]}
		}
	}
	return nil
}
