package interp

// Function actions: configured stubs, prelude methods, standard-library
// intrinsics (asm / unsafe / reflect leaves), math/big as SMT Int.

import (
	"fmt"
	"math/big"
	"go/token"
	"go/types"
	"sort"
	"strings"

	"golang.org/x/tools/go/ssa"
)

type fallthroughMarker struct{}

func pkgPathOf(fn *ssa.Function) string {
	if fn.Pkg != nil {
		return fn.Pkg.Pkg.Path()
	}
	if o := fn.Object(); o != nil && o.Pkg() != nil {
		return o.Pkg().Path()
	}
	if fn.Signature.Recv() != nil {
		t := fn.Signature.Recv().Type()
		if p, ok := t.(*types.Pointer); ok {
			t = p.Elem()
		}
		if n, ok := t.(*types.Named); ok && n.Obj().Pkg() != nil {
			return n.Obj().Pkg().Path()
		}
	}
	return ""
}

func (i *interpreter) action(fn *ssa.Function) *fnAction {
	if a, ok := i.actions[fn]; ok {
		return a
	}
	a := i.resolve(fn)
	i.actions[fn] = a
	return a
}

func (i *interpreter) parseAction(fn *ssa.Function, act string) *fnAction {
	switch {
	case act == "noop" || act == "zero":
		return &fnAction{noop: true}
	case act == "real":
		return nil
	case strings.HasPrefix(act, "fault"):
		return &fnAction{fault: "configured fault for " + fn.String() + ": " + act}
	case strings.HasPrefix(act, "harness:"):
		target := act[len("harness:"):]
		k := strings.LastIndex(target, ".")
		pkg := i.prog.ImportedPackage(target[:k])
		if pkg == nil {
			panic(engineFault{"stub target package not found: " + target})
		}
		f := pkg.Func(target[k+1:])
		if f == nil {
			panic(engineFault{"stub target function not found: " + target})
		}
		return &fnAction{replace: f}
	}
	panic(engineFault{"bad stub action " + act})
}

func (i *interpreter) resolve(fn *ssa.Function) *fnAction {
	name := fn.String()
	if act, ok := i.cfg.Stubs[name]; ok {
		return i.parseAction(fn, act)
	}
	best := ""
	for pat := range i.cfg.Stubs {
		if strings.HasSuffix(pat, "*") && strings.HasPrefix(name, pat[:len(pat)-1]) && len(pat) > len(best) {
			best = pat
		}
		if strings.HasPrefix(pat, "pkg:") && pkgPathOf(fn) == pat[4:] && len(pat) > len(best) {
			best = pat
		}
	}
	if best != "" {
		return i.parseAction(fn, i.cfg.Stubs[best])
	}
	if k := strings.Index(name, ".VerifV)."); k >= 0 {
		m := name[k+len(".VerifV)."):]
		if f, ok := preludeTable[m]; ok {
			return &fnAction{intrinsic: f}
		}
		panic(engineFault{"unknown prelude method " + m})
	}
	// generated protobuf size helpers sovXxx(x uint64) int = number of varint bytes
	if strings.Contains(name, ".sov") && fn.Signature.Params().Len() == 1 && fn.Signature.Results().Len() == 1 && fn.Signature.Recv() == nil {
		if b, ok := fn.Signature.Params().At(0).Type().Underlying().(*types.Basic); ok && b.Kind() == types.Uint64 {
			return &fnAction{intrinsic: intrVarintLen}
		}
	}
	for _, suf := range i.cfg.ConcretizeResults {
		if strings.HasSuffix(name, suf) || (strings.HasSuffix(suf, "*") && strings.Contains(name, suf[:len(suf)-1])) {
			return &fnAction{concResult: true}
		}
	}
	if f, ok := intrinsics[name]; ok {
		return &fnAction{intrinsic: f}
	}
	if f, ok := reflectIntrinsics[name]; ok {
		return &fnAction{intrinsic: f}
	}
	pp := pkgPathOf(fn)
	switch pp {
	case "math/big":
		if f := bigIntrinsic(name); f != nil {
			return &fnAction{intrinsic: f}
		}
		return &fnAction{fault: "math/big function without Int-sort model: " + name}
	case "reflect", "internal/reflectlite":
		return &fnAction{fault: "reflection is not modelled: " + name}
	case "sync/atomic":
		if strings.HasPrefix(name, "(*sync/atomic.Pointer[") {
			m := name[strings.LastIndex(name, ".")+1:]
			if f, ok := atomicPointerMethods[m]; ok {
				return &fnAction{intrinsic: f}
			}
		}
	case "os", "os/exec", "net", "syscall", "os/signal":
		if fn.Name() != "init" {
			return &fnAction{fault: "operating-system access is not modelled: " + name}
		}
	case "fmt":
		if fn.Name() != "init" && fn.Signature.Recv() == nil {
			return &fnAction{fault: "fmt function without model: " + name}
		}
	}
	return nil
}

var intrinsics map[string]intrinsic
var atomicPointerMethods map[string]intrinsic

func noopIntr(fr *frame, a []value) value { return nil }

func init() {
	intrinsics = map[string]intrinsic{
		// ---- runtime
		"runtime.SetFinalizer": noopIntr,
		"runtime.KeepAlive":    noopIntr,
		"runtime.GC":           noopIntr,
		"runtime.Gosched":      noopIntr,
		"runtime.GOMAXPROCS":   func(fr *frame, a []value) value { return 1 },
		"runtime.NumCPU":       func(fr *frame, a []value) value { return 1 },
		"runtime.NumGoroutine": func(fr *frame, a []value) value { return 1 },
		"runtime.Callers":      func(fr *frame, a []value) value { return 0 },
		"runtime.Caller": func(fr *frame, a []value) value {
			return tuple{uintptr(0), "", 0, false}
		},
		"runtime.Stack":       func(fr *frame, a []value) value { return 0 },
		"runtime/debug.Stack": func(fr *frame, a []value) value { return []value(nil) },
		"runtime/debug.PrintStack": noopIntr,
		"runtime.FuncForPC":   func(fr *frame, a []value) value { return (*value)(nil) },
		"time.Sleep":          noopIntr,
		"time.now": func(fr *frame, a []value) value {
			panic(engineFault{"time.Now reached without a configured clock stub (called from " + callerName(fr.caller) + ")"})
		},
		"time.runtimeNano": func(fr *frame, a []value) value {
			panic(engineFault{"monotonic clock read without a configured clock stub"})
		},

		// ---- internal/bytealg, bytes, strings
		"internal/bytealg.MakeNoZero": func(fr *frame, a []value) value {
			n := int(fr.concreteInt(a[0], "MakeNoZero"))
			s := make([]value, n)
			for i := range s {
				s[i] = uint8(0)
			}
			return s
		},
		"internal/bytealg.Compare":         intrCompareBytes,
		"bytes.Compare":                    intrCompareBytes,
		"internal/bytealg.CompareString":   intrCompareBytes,
		"strings.Compare":                  intrCompareBytes,
		"internal/bytealg.Equal":           intrEqualBytes,
		"internal/bytealg.IndexByte":       intrIndexByte,
		"internal/bytealg.IndexByteString": intrIndexByte,
		"bytes.IndexByte":                  intrIndexByte,
		"strings.IndexByte":                intrIndexByte,
		"internal/bytealg.Count":           intrCountByte,
		"internal/bytealg.CountString":     intrCountByte,
		"internal/bytealg.Index":           intrIndex,
		"internal/bytealg.IndexString":     intrIndex,
		"strings.Index":                    intrIndex,
		"bytes.Index":                      intrIndex,
		"internal/stringslite.Index":       intrIndex,
		"internal/stringslite.IndexByte":   intrIndexByte,
		"(*strings.Builder).String": func(fr *frame, a []value) value {
			b := (*a[0].(*value)).(structure)
			return normStr(symStr(b[1].([]value)))
		},
		"(*strings.Builder).copyCheck": noopIntr,
		"internal/abi.NoEscape":        func(fr *frame, a []value) value { return a[0] },

		// ---- sort
		"sort.Slice":       intrSortSlice,
		"sort.SliceStable": intrSortSlice,

		// ---- sync
		"(*sync.Mutex).Lock":      intrMutexLock,
		"(*sync.Mutex).Unlock":    intrMutexUnlock,
		"(*sync.Mutex).TryLock":   intrMutexTryLock,
		"(*sync.RWMutex).Lock":    intrRWLock,
		"(*sync.RWMutex).Unlock":  intrRWUnlock,
		"(*sync.RWMutex).RLock":   intrRWRLock,
		"(*sync.RWMutex).RUnlock": intrRWRUnlock,
		"(*sync.WaitGroup).Add":   noopIntr,
		"(*sync.WaitGroup).Done":  noopIntr,
		"(*sync.WaitGroup).Wait":  noopIntr,
		"(*sync.Pool).Get": func(fr *frame, a []value) value {
			p := (*a[0].(*value)).(structure)
			// field "New" is the last field
			nf := p[len(p)-1]
			switch f := nf.(type) {
			case *ssa.Function:
				if f == nil {
					return iface{}
				}
			}
			return call(fr.i, fr, token.NoPos, nf, nil)
		},
		"(*sync.Pool).Put": noopIntr,

		// ---- sync/atomic
		"sync/atomic.LoadInt32":   intrAtomicLoad,
		"sync/atomic.LoadInt64":   intrAtomicLoad,
		"sync/atomic.LoadUint32":  intrAtomicLoad,
		"sync/atomic.LoadUint64":  intrAtomicLoad,
		"sync/atomic.LoadUintptr": intrAtomicLoad,
		"sync/atomic.LoadPointer": intrAtomicLoad,
		"sync/atomic.StoreInt32":   intrAtomicStore,
		"sync/atomic.StoreInt64":   intrAtomicStore,
		"sync/atomic.StoreUint32":  intrAtomicStore,
		"sync/atomic.StoreUint64":  intrAtomicStore,
		"sync/atomic.StoreUintptr": intrAtomicStore,
		"sync/atomic.StorePointer": intrAtomicStore,
		"sync/atomic.SwapInt32":    intrAtomicSwap,
		"sync/atomic.SwapInt64":    intrAtomicSwap,
		"sync/atomic.SwapUint32":   intrAtomicSwap,
		"sync/atomic.SwapUint64":   intrAtomicSwap,
		"sync/atomic.SwapPointer":  intrAtomicSwap,
		"sync/atomic.AddInt32":     intrAtomicAdd,
		"sync/atomic.AddInt64":     intrAtomicAdd,
		"sync/atomic.AddUint32":    intrAtomicAdd,
		"sync/atomic.AddUint64":    intrAtomicAdd,
		"sync/atomic.AddUintptr":   intrAtomicAdd,
		"sync/atomic.CompareAndSwapInt32":   intrAtomicCAS,
		"sync/atomic.CompareAndSwapInt64":   intrAtomicCAS,
		"sync/atomic.CompareAndSwapUint32":  intrAtomicCAS,
		"sync/atomic.CompareAndSwapUint64":  intrAtomicCAS,
		"sync/atomic.CompareAndSwapUintptr": intrAtomicCAS,
		"sync/atomic.CompareAndSwapPointer": intrAtomicCAS,
		"(*sync/atomic.Value).Load": func(fr *frame, a []value) value {
			return (*a[0].(*value)).(structure)[0]
		},
		"(*sync/atomic.Value).Store": func(fr *frame, a []value) value {
			(*a[0].(*value)).(structure)[0] = a[1]
			return nil
		},
		"(*sync/atomic.Value).Swap": func(fr *frame, a []value) value {
			s := (*a[0].(*value)).(structure)
			old := s[0]
			s[0] = a[1]
			return old
		},

		// ---- errors / fmt
		"errors.Is":   intrErrorsIs,
		"errors.As":   intrErrorsAs,
		"fmt.Errorf":  intrErrorf,
		"fmt.Sprintf": intrSprintf,
		"fmt.Sprint":  func(fr *frame, a []value) value { return sprintArgs(fr, a[0].([]value), false) },
		"fmt.Sprintln": func(fr *frame, a []value) value { return sprintArgs(fr, a[0].([]value), true) },
		"fmt.Println": func(fr *frame, a []value) value { return tuple{0, iface{}} },
		"fmt.Printf":  func(fr *frame, a []value) value { return tuple{0, iface{}} },
		"fmt.Print":   func(fr *frame, a []value) value { return tuple{0, iface{}} },
		"fmt.Fprintf": func(fr *frame, a []value) value { return tuple{0, iface{}} },
		"fmt.Fprintln": func(fr *frame, a []value) value { return tuple{0, iface{}} },
		"fmt.Fprint":  func(fr *frame, a []value) value { return tuple{0, iface{}} },

		// ---- math/bits (symbolic operands only; concrete ones run the real code)
		"math/bits.Add64":           intrBitsAdd64,
		"math/bits.Sub64":           intrBitsSub64,
		"math/bits.Mul64":           intrBitsMul64,
		"math/bits.Div64":           intrBitsDiv64,
		"math/bits.Len64":           func(fr *frame, a []value) value { return intrBitsLen(fr, a, 64) },
		"math/bits.Len32":           func(fr *frame, a []value) value { return intrBitsLen(fr, a, 32) },
		"math/bits.Len16":           func(fr *frame, a []value) value { return intrBitsLen(fr, a, 16) },
		"math/bits.Len8":            func(fr *frame, a []value) value { return intrBitsLen(fr, a, 8) },
		"math/bits.Len":             func(fr *frame, a []value) value { return intrBitsLen(fr, a, 64) },
		"math/bits.LeadingZeros64":  func(fr *frame, a []value) value { return intrBitsLZ(fr, a, 64) },
		"math/bits.LeadingZeros32":  func(fr *frame, a []value) value { return intrBitsLZ(fr, a, 32) },
		"math/bits.LeadingZeros8":   func(fr *frame, a []value) value { return intrBitsLZ(fr, a, 8) },
		"math/bits.TrailingZeros64": func(fr *frame, a []value) value { return intrBitsTZ(fr, a, 64) },
		"math/bits.TrailingZeros32": func(fr *frame, a []value) value { return intrBitsTZ(fr, a, 32) },
		"math/bits.TrailingZeros":   func(fr *frame, a []value) value { return intrBitsTZ(fr, a, 64) },
		"math/bits.OnesCount64":     func(fr *frame, a []value) value { return intrBitsOnes(fr, a, 64) },
		"math/bits.OnesCount":       func(fr *frame, a []value) value { return intrBitsOnes(fr, a, 64) },
		"math/bits.ReverseBytes64":  intrBitsRevBytes64,
	}
	atomicPointerMethods = map[string]intrinsic{
		"Load": func(fr *frame, a []value) value {
			s := (*a[0].(*value)).(structure)
			v := s[len(s)-1]
			if _, ok := v.(*value); !ok {
				return (*value)(nil)
			}
			return v
		},
		"Store": func(fr *frame, a []value) value {
			s := (*a[0].(*value)).(structure)
			s[len(s)-1] = a[1]
			return nil
		},
		"Swap": func(fr *frame, a []value) value {
			s := (*a[0].(*value)).(structure)
			old := s[len(s)-1]
			s[len(s)-1] = a[1]
			if _, ok := old.(*value); !ok {
				return (*value)(nil)
			}
			return old
		},
		"CompareAndSwap": func(fr *frame, a []value) value {
			s := (*a[0].(*value)).(structure)
			cur, _ := s[len(s)-1].(*value)
			if cur == a[1].(*value) {
				s[len(s)-1] = a[2]
				return true
			}
			return false
		},
	}
}

// ---- bytes

func byteSeq(v value) []value {
	switch x := v.(type) {
	case []value:
		return x
	case string:
		return toSymStr(x)
	case symStr:
		return x
	}
	panic(engineFault{fmt.Sprintf("byteSeq %T", v)})
}

func intrCompareBytes(fr *frame, a []value) value {
	st := fr.st()
	x, y := byteSeq(a[0]), byteSeq(a[1])
	n := len(x)
	if len(y) < n {
		n = len(y)
	}
	var tail int64
	switch {
	case len(x) < len(y):
		tail = -1
	case len(x) > len(y):
		tail = 1
	}
	r := st.BVi(tail, 64)
	for i := n - 1; i >= 0; i-- {
		xi, yi := lift(st, x[i]), lift(st, y[i])
		r = st.Ite(st.Eq(xi, yi), r, st.Ite(st.ULt(xi, yi), st.BVi(-1, 64), st.BVi(1, 64)))
	}
	return lower(types.Typ[types.Int], r)
}

func intrEqualBytes(fr *frame, a []value) value {
	return lower(types.Typ[types.Bool], strEq(fr, symStr(byteSeq(a[0])), symStr(byteSeq(a[1]))))
}

func intrIndexByte(fr *frame, a []value) value {
	st := fr.st()
	x := byteSeq(a[0])
	c := lift(st, a[1])
	for i := range x {
		if fr.cond(lower(types.Typ[types.Bool], st.Eq(lift(st, x[i]), c))) {
			return i
		}
	}
	return -1
}

func intrCountByte(fr *frame, a []value) value {
	st := fr.st()
	x := byteSeq(a[0])
	c := lift(st, a[1])
	n := 0
	for i := range x {
		if fr.cond(lower(types.Typ[types.Bool], st.Eq(lift(st, x[i]), c))) {
			n++
		}
	}
	return n
}

func intrIndex(fr *frame, a []value) value {
	x, y := byteSeq(a[0]), byteSeq(a[1])
	for i := 0; i+len(y) <= len(x); i++ {
		e := strEq(fr, symStr(x[i:i+len(y)]), symStr(y))
		if fr.cond(lower(types.Typ[types.Bool], e)) {
			return i
		}
	}
	return -1
}

// ---- sort.Slice: stable insertion sort driven by the target's less closure.
func intrSortSlice(fr *frame, a []value) value {
	s := a[0].(iface).v.([]value)
	less := a[1]
	lessIdx := func(i, j int) bool {
		return fr.cond(call(fr.i, fr, token.NoPos, less, []value{i, j}))
	}
	for i := 1; i < len(s); i++ {
		for j := i; j > 0 && lessIdx(j, j-1); j-- {
			s[j], s[j-1] = s[j-1], s[j]
		}
	}
	return nil
}

// ---- sync

func mutexState(a value) *value {
	p := a.(*value)
	if p == nil {
		panic(engineFault{"nil mutex"})
	}
	return &(*p).(structure)[0]
}

func intrMutexLock(fr *frame, a []value) value {
	s := mutexState(a[0])
	if (*s).(int32) != 0 {
		panic(pathAbort{"blocked", "Lock of a held mutex (single-threaded model) at " + callerName(fr.caller)})
	}
	*s = int32(1)
	return nil
}
func intrMutexTryLock(fr *frame, a []value) value {
	s := mutexState(a[0])
	if (*s).(int32) != 0 {
		return false
	}
	*s = int32(1)
	return true
}
func intrMutexUnlock(fr *frame, a []value) value {
	s := mutexState(a[0])
	if (*s).(int32) == 0 {
		panic(targetPanic{v: iface{fr.i.runtimeErrorString, "sync: unlock of unlocked mutex"}, runtime: true, site: callerName(fr.caller), stack: fr.caller.stack()})
	}
	*s = int32(0)
	// bounded context switch: a harness may name a function that runs "what another goroutine
	// blocked on this mutex does as soon as it is released" (stub key "hook:unlock"). Not re-entrant.
	if act, ok := fr.i.cfg.Stubs["hook:unlock"]; ok && fr.i.inHook == 0 && fr.i.inInit == 0 {
		if fa := fr.i.parseAction(nil, act); fa != nil && fa.replace != nil {
			fr.i.inHook++
			defer func() { fr.i.inHook-- }()
			call(fr.i, fr.caller, token.NoPos, fa.replace, []value{a[0]})
		}
	}
	return nil
}

// RWMutex: field 0 is w (Mutex); fields 1,2 (writerSem, readerSem uint32) hold writer flag / reader count.
func rwFields(a value) (w *value, readers *value) {
	s := (*a.(*value)).(structure)
	return &s[1], &s[2]
}
func intrRWLock(fr *frame, a []value) value {
	w, r := rwFields(a[0])
	if (*w).(uint32) != 0 || (*r).(uint32) != 0 {
		panic(pathAbort{"blocked", "Lock of a held RWMutex (single-threaded model) at " + callerName(fr.caller)})
	}
	*w = uint32(1)
	return nil
}
func intrRWUnlock(fr *frame, a []value) value {
	w, _ := rwFields(a[0])
	if (*w).(uint32) == 0 {
		panic(targetPanic{v: iface{fr.i.runtimeErrorString, "sync: Unlock of unlocked RWMutex"}, runtime: true, site: callerName(fr.caller), stack: fr.caller.stack()})
	}
	*w = uint32(0)
	return nil
}
func intrRWRLock(fr *frame, a []value) value {
	w, r := rwFields(a[0])
	if (*w).(uint32) != 0 {
		panic(pathAbort{"blocked", "RLock of a write-locked RWMutex (single-threaded model) at " + callerName(fr.caller)})
	}
	*r = (*r).(uint32) + 1
	return nil
}
func intrRWRUnlock(fr *frame, a []value) value {
	_, r := rwFields(a[0])
	if (*r).(uint32) == 0 {
		panic(targetPanic{v: iface{fr.i.runtimeErrorString, "sync: RUnlock of unlocked RWMutex"}, runtime: true, site: callerName(fr.caller), stack: fr.caller.stack()})
	}
	*r = (*r).(uint32) - 1
	return nil
}

func intrAtomicLoad(fr *frame, a []value) value {
	p := a[0].(*value)
	if p == nil {
		rtPanic(fr.caller, "invalid memory address or nil pointer dereference")
	}
	return *p
}
func intrAtomicStore(fr *frame, a []value) value {
	p := a[0].(*value)
	if p == nil {
		rtPanic(fr.caller, "invalid memory address or nil pointer dereference")
	}
	*p = a[1]
	return nil
}
func intrAtomicSwap(fr *frame, a []value) value {
	p := a[0].(*value)
	old := *p
	*p = a[1]
	return old
}
func intrAtomicAdd(fr *frame, a []value) value {
	p := a[0].(*value)
	t := fr.fn.Signature.Params().At(1).Type()
	*p = binop(fr, token.ADD, t, t, *p, a[1])
	return *p
}
func intrAtomicCAS(fr *frame, a []value) value {
	p := a[0].(*value)
	t := fr.fn.Signature.Params().At(1).Type()
	eq := eqValue(fr, t, *p, a[1])
	if fr.cond(eq) {
		*p = a[2]
		return true
	}
	return false
}

// ---- errors

func (i *interpreter) namedType(pkgPath, name string) types.Type {
	key := pkgPath + "." + name
	if i.namedCache == nil {
		i.namedCache = make(map[string]types.Type)
	}
	if t, ok := i.namedCache[key]; ok {
		return t
	}
	pkg := i.prog.ImportedPackage(pkgPath)
	if pkg == nil {
		panic(engineFault{"package not loaded: " + pkgPath})
	}
	m := pkg.Type(name)
	if m == nil {
		panic(engineFault{"type not found: " + key})
	}
	i.namedCache[key] = m.Type()
	return m.Type()
}

func (i *interpreter) newErrorString(msg value) value {
	t := i.namedType("errors", "errorString")
	s := value(structure{msg})
	return iface{t: types.NewPointer(t), v: &s}
}

func (i *interpreter) findMethod(t types.Type, name string) *ssa.Function {
	ms := i.prog.MethodSets.MethodSet(t)
	for k := 0; k < ms.Len(); k++ {
		sel := ms.At(k)
		if sel.Obj().Name() == name {
			return i.prog.MethodValue(sel)
		}
	}
	return nil
}

func intrErrorsIs(fr *frame, a []value) value {
	err, target := a[0].(iface), a[1].(iface)
	if err.t == nil || target.t == nil {
		return err.t == nil && target.t == nil
	}
	comparable := types.Comparable(target.t)
	var walk func(e iface, depth int) bool
	walk = func(e iface, depth int) bool {
		for depth < 50 {
			depth++
			if e.t == nil {
				return false
			}
			if comparable && sameType(e.t, target.t) {
				if fr.cond(eqValue(fr, e.t, e.v, target.v)) {
					return true
				}
			}
			if m := fr.i.findMethod(e.t, "Is"); m != nil && m.Signature.Params().Len() == 1 && m.Signature.Results().Len() == 1 {
				if fr.cond(call(fr.i, fr, token.NoPos, m, []value{e.v, target})) {
					return true
				}
			}
			m := fr.i.findMethod(e.t, "Unwrap")
			if m == nil || m.Signature.Results().Len() != 1 {
				return false
			}
			r := call(fr.i, fr, token.NoPos, m, []value{e.v})
			switch r := r.(type) {
			case iface:
				e = r
			case []value:
				for _, x := range r {
					if walk(x.(iface), depth) {
						return true
					}
				}
				return false
			default:
				return false
			}
		}
		return false
	}
	return walk(err, 0)
}

func intrErrorsAs(fr *frame, a []value) value {
	err, target := a[0].(iface), a[1].(iface)
	if target.t == nil {
		rtPanic(fr.caller, "errors: target cannot be nil")
	}
	pt, ok := target.t.Underlying().(*types.Pointer)
	if !ok {
		rtPanic(fr.caller, "errors: target must be a non-nil pointer")
	}
	tt := pt.Elem()
	dst := target.v.(*value)
	for depth := 0; depth < 50 && err.t != nil; depth++ {
		if it, isI := tt.Underlying().(*types.Interface); isI {
			if types.Implements(err.t, it) {
				*dst = err
				return true
			}
		} else if types.Identical(err.t, tt) {
			*dst = err.v
			return true
		}
		m := fr.i.findMethod(err.t, "Unwrap")
		if m == nil || m.Signature.Results().Len() != 1 {
			return false
		}
		r, isI := call(fr.i, fr, token.NoPos, m, []value{err.v}).(iface)
		if !isI {
			return false
		}
		err = r
	}
	return false
}

// fmtArg turns an interpreter value into something host fmt can print.
func fmtArg(fr *frame, v value, depth int) interface{} {
	switch x := v.(type) {
	case iface:
		if x.t == nil {
			return nil
		}
		if depth < 3 {
			if m := fr.i.findMethod(x.t, "Error"); m != nil && m.Signature.Params().Len() == 0 {
				return safeCallString(fr, m, x.v)
			}
			if m := fr.i.findMethod(x.t, "String"); m != nil && m.Signature.Params().Len() == 0 && m.Signature.Results().Len() == 1 {
				return safeCallString(fr, m, x.v)
			}
		}
		return fmtArg(fr, x.v, depth+1)
	case bool, int, int8, int16, int32, int64, uint, uint8, uint16, uint32, uint64, uintptr, float32, float64, string:
		return x
	case *Term:
		return "<sym>"
	case symStr:
		return "<symstr>"
	case []value:
		if len(x) > 0 {
			if _, isB := x[0].(uint8); isB {
				b := make([]byte, len(x))
				for i, e := range x {
					c, ok := e.(uint8)
					if !ok {
						return "<symbytes>"
					}
					b[i] = c
				}
				return b
			}
		}
		return fmt.Sprintf("<slice len %d>", len(x))
	case array:
		return fmtArg(fr, []value(x), depth)
	case *value:
		if x == nil {
			return nil
		}
		return "<ptr>"
	}
	return fmt.Sprintf("<%T>", v)
}

func safeCallString(fr *frame, m *ssa.Function, recv value) (out interface{}) {
	defer func() {
		if r := recover(); r != nil {
			if _, abort := r.(pathAbort); abort {
				panic(r)
			}
			out = "<unprintable>"
		}
	}()
	r := call(fr.i, fr, token.NoPos, m, []value{recv})
	if s, ok := r.(string); ok {
		return s
	}
	return "<symstr>"
}

func formatArgs(fr *frame, format string, args []value) string {
	conv := make([]interface{}, len(args))
	for i, a := range args {
		conv[i] = fmtArg(fr, a, 0)
	}
	f := strings.ReplaceAll(format, "%w", "%v")
	return fmt.Sprintf(f, conv...)
}

func intrSprintf(fr *frame, a []value) value {
	format, ok := a[0].(string)
	if !ok {
		return "<symfmt>"
	}
	return formatArgs(fr, format, a[1].([]value))
}

func sprintArgs(fr *frame, args []value, ln bool) value {
	conv := make([]interface{}, len(args))
	for i, a := range args {
		conv[i] = fmtArg(fr, a, 0)
	}
	if ln {
		return fmt.Sprintln(conv...)
	}
	return fmt.Sprint(conv...)
}

func intrErrorf(fr *frame, a []value) value {
	format, _ := a[0].(string)
	args := a[1].([]value)
	msg := formatArgs(fr, format, args)
	// find %w operands
	var wrapped []value
	argi := 0
	for k := 0; k+1 < len(format); k++ {
		if format[k] != '%' {
			continue
		}
		k++
		for k < len(format) && strings.ContainsRune("+-# 0123456789.*[]", rune(format[k])) {
			k++
		}
		if k >= len(format) {
			break
		}
		if format[k] == '%' {
			continue
		}
		if format[k] == 'w' && argi < len(args) {
			if e, ok := args[argi].(iface); ok && e.t != nil {
				wrapped = append(wrapped, e)
			}
		}
		argi++
	}
	switch len(wrapped) {
	case 0:
		return fr.i.newFmtError(msg)
	case 1:
		t := fr.i.namedType("fmt", "wrapError")
		s := value(structure{msg, wrapped[0]})
		return iface{t: types.NewPointer(t), v: &s}
	default:
		t := fr.i.namedType("fmt", "wrapErrors")
		s := value(structure{msg, wrapped})
		return iface{t: types.NewPointer(t), v: &s}
	}
}

func (i *interpreter) newFmtError(msg string) value {
	return i.newErrorString(msg)
}

// ---- math/bits

func anySym(a []value) bool {
	for _, v := range a {
		if isSym(v) {
			return true
		}
	}
	return false
}

func runReal(fr *frame, a []value) value {
	// execute the real SSA body of fr.fn
	act := fr.i.actions[fr.fn]
	fr.i.actions[fr.fn] = nil
	defer func() { fr.i.actions[fr.fn] = act }()
	return callSSA(fr.i, fr.caller, fr.callpos, fr.fn, a, nil)
}

func intrBitsAdd64(fr *frame, a []value) value {
	if !anySym(a) {
		return runReal(fr, a)
	}
	st := fr.st()
	x, y, c := st.ZExt(lift(st, a[0]), 1), st.ZExt(lift(st, a[1]), 1), st.ZExt(lift(st, a[2]), 1)
	s := st.Add(st.Add(x, y), c)
	u := types.Typ[types.Uint64]
	return tuple{lower(u, st.Extract(s, 63, 0)), lower(u, st.ZExt(st.Extract(s, 64, 64), 63))}
}

func intrBitsSub64(fr *frame, a []value) value {
	if !anySym(a) {
		return runReal(fr, a)
	}
	st := fr.st()
	x, y, b := st.ZExt(lift(st, a[0]), 1), st.ZExt(lift(st, a[1]), 1), st.ZExt(lift(st, a[2]), 1)
	d := st.Sub(st.Sub(x, y), b)
	u := types.Typ[types.Uint64]
	return tuple{lower(u, st.Extract(d, 63, 0)), lower(u, st.ZExt(st.Extract(d, 64, 64), 63))}
}

func intrBitsMul64(fr *frame, a []value) value {
	if !anySym(a) {
		return runReal(fr, a)
	}
	st := fr.st()
	p := st.Mul(st.ZExt(lift(st, a[0]), 64), st.ZExt(lift(st, a[1]), 64))
	u := types.Typ[types.Uint64]
	return tuple{lower(u, st.Extract(p, 127, 64)), lower(u, st.Extract(p, 63, 0))}
}

func intrBitsDiv64(fr *frame, a []value) value {
	if !anySym(a) {
		return runReal(fr, a)
	}
	st := fr.st()
	hi, lo, y := lift(st, a[0]), lift(st, a[1]), lift(st, a[2])
	if fr.cond(lower(types.Typ[types.Bool], st.Eq(y, st.BVu(0, 64)))) {
		rtPanic(fr.caller, "integer divide by zero")
	}
	if fr.cond(lower(types.Typ[types.Bool], st.ULe(y, hi))) {
		rtPanic(fr.caller, "integer overflow")
	}
	n := st.Concat(hi, lo)
	y128 := st.ZExt(y, 64)
	u := types.Typ[types.Uint64]
	return tuple{lower(u, st.Extract(st.UDiv(n, y128), 63, 0)), lower(u, st.Extract(st.URem(n, y128), 63, 0))}
}

func intrBitsLen(fr *frame, a []value, w int) value {
	if !anySym(a) {
		return runReal(fr, a)
	}
	st := fr.st()
	x := lift(st, a[0])
	r := st.BVu(0, 64)
	for k := 0; k < w; k++ {
		bit := st.Eq(st.Extract(x, k, k), st.BVu(1, 1))
		r = st.Ite(bit, st.BVu(uint64(k+1), 64), r)
	}
	return lower(types.Typ[types.Int], r)
}

func intrBitsLZ(fr *frame, a []value, w int) value {
	if !anySym(a) {
		return runReal(fr, a)
	}
	st := fr.st()
	l := lift(st, intrBitsLen(fr, a, w))
	return lower(types.Typ[types.Int], st.Sub(st.BVu(uint64(w), 64), l))
}

func intrBitsTZ(fr *frame, a []value, w int) value {
	if !anySym(a) {
		return runReal(fr, a)
	}
	st := fr.st()
	x := lift(st, a[0])
	r := st.BVu(uint64(w), 64)
	for k := w - 1; k >= 0; k-- {
		bit := st.Eq(st.Extract(x, k, k), st.BVu(1, 1))
		r = st.Ite(bit, st.BVu(uint64(k), 64), r)
	}
	return lower(types.Typ[types.Int], r)
}

func intrBitsOnes(fr *frame, a []value, w int) value {
	if !anySym(a) {
		return runReal(fr, a)
	}
	st := fr.st()
	x := lift(st, a[0])
	r := st.BVu(0, 64)
	for k := 0; k < w; k++ {
		r = st.Add(r, st.ZExt(st.Extract(x, k, k), 63))
	}
	return lower(types.Typ[types.Int], r)
}

func intrBitsRevBytes64(fr *frame, a []value) value {
	if !anySym(a) {
		return runReal(fr, a)
	}
	st := fr.st()
	x := lift(st, a[0])
	var r *Term
	for k := 0; k < 8; k++ {
		b := st.Extract(x, 8*k+7, 8*k)
		if r == nil {
			r = b
		} else {
			r = st.Concat(r, b)
		}
	}
	return lower(types.Typ[types.Uint64], r)
}

// FuncNames returns the sorted names of functions in m.
func FuncNames(m map[*ssa.Function]bool) []string {
	out := make([]string, 0, len(m))
	for f := range m {
		out = append(out, f.String())
	}
	sort.Strings(out)
	return out
}

// intrVarintLen models sovXxx: (bits.Len64(x|1)+6)/7 as a cascade of range tests
// (validated against the real body in concrete mode by the engine's self-test).
func intrVarintLen(fr *frame, a []value) value {
	if !anySym(a) {
		return runReal(fr, a)
	}
	st := fr.st()
	x := lift(st, a[0])
	for k := 1; k <= 9; k++ {
		if fr.cond(lower(types.Typ[types.Bool], st.ULt(x, st.BV(new(big.Int).Lsh(bigOne, uint(7*k)), 64)))) {
			return k
		}
	}
	return 10
}
