package interp

// Path context: decisions, path constraints, current model, obligations.

import (
	"fmt"
	"os"
	"math/big"
	"regexp"
	"sort"
	"strings"
)

// engineFault: the engine cannot continue soundly (unsupported construct,
// internal error). The whole check becomes INCONCLUSIVE.
var checkRange = os.Getenv("GOSYM_CHECK_RANGE") != ""

type engineFault struct{ msg string }

func (e engineFault) Error() string { return e.msg }

// pathAbort ends the current path without a verdict on the target.
type pathAbort struct {
	kind string // "pruned" | "bound" | "blocked" | "cut"
	msg  string
}

type dec struct {
	C    int        `json:"c"`
	Excl []*big.Int `json:"excl,omitempty"`
	Pick *big.Int   `json:"pick,omitempty"`
	Val  bool       `json:"val,omitempty"` // concretisation entry
}

type workItem struct {
	prefix []dec
	model  *Model
}

type NondetRec struct {
	Name string `json:"name"`
	Kind string `json:"kind"` // u8,u16,u32,u64,i64,bool,big,len,choice,bytes
	Var  string `json:"var,omitempty"`
	Val  string `json:"val"`
	t    *Term
}

type Failure struct {
	Label     string      `json:"label"`
	Kind      string      `json:"kind"` // "assert" | "panic"
	Site      string      `json:"site"`
	Msg       string      `json:"msg,omitempty"`
	Nondet    []NondetRec `json:"nondet"`
	Observed  []string    `json:"observed,omitempty"`
	Decisions int         `json:"decisions"`
	Stack     []string    `json:"stack,omitempty"`
}

type Limits struct {
	MaxSteps     int
	MaxDecisions int
	Unwind       int
	MaxDepth     int
	AllocCap     int
	AllocLimit   int64 // 0 = no obligation
	ConcretizeCap int
	IndexIteCap  int
}

func DefaultLimits() Limits {
	return Limits{MaxSteps: 3_000_000, MaxDecisions: 4000, Unwind: 300, MaxDepth: 400, AllocCap: 64, ConcretizeCap: 64, IndexIteCap: 300}
}

type pathCtx struct {
	st       *TermStore
	solver   *Solver
	model    *Model
	pcs      []*Term
	prefix   []dec
	decs     []dec
	pos      int
	pending  []workItem
	nondet   []NondetRec
	observed []string
	nvar     int
	steps    int
	lim      Limits

	covers      map[string]bool
	failures    []Failure
	obligations int
	discharged  int
	trivial     int
	inconcl     []string // obligations / feasibility checks the solver could not decide
	cuts        []string
	ufCalls     map[string][]ufCall
	ghost       map[string]value // harness-visible per-path scratch
	known       map[int]bool     // term id -> truth value already implied by the path condition
	rlo, rhi    map[int]*big.Int // learned unsigned bounds of bit-vector terms
	expectPanic []*regexp.Regexp
	sizes       map[string]int
}

type ufCall struct {
	args []*Term // each arg is a concatenated BV (or nil for empty)
	lens []int
	out  []*Term // output bytes
}

func (pc *pathCtx) prune(msg string) {
	panic(pathAbort{"pruned", msg})
}

func sanitize(name string) string {
	var sb strings.Builder
	for _, c := range name {
		if (c >= 'a' && c <= 'z') || (c >= 'A' && c <= 'Z') || (c >= '0' && c <= '9') || c == '_' || c == '.' {
			sb.WriteRune(c)
		} else {
			sb.WriteByte('_')
		}
	}
	return sb.String()
}

func (pc *pathCtx) fresh(name string, srt int) *Term {
	pc.nvar++
	return pc.st.Var(fmt.Sprintf("v%d_%s", pc.nvar, sanitize(name)), srt)
}

// ensureModel makes sure pc.model is a witness of the path constraints.
func (pc *pathCtx) ensureModel() {
	if pc.model != nil {
		return
	}
	r := pc.solver.Check()
	switch r {
	case "sat":
		m, ok := pc.solver.Model(pc.st.vars)
		if ok {
			pc.model = m
			return
		}
		pc.inconcl = append(pc.inconcl, "model unavailable")
		panic(pathAbort{"bound", "no model available for feasible path"})
	case "unsat":
		pc.prune("path constraints unsat")
	default:
		pc.inconcl = append(pc.inconcl, "path feasibility unknown")
		panic(pathAbort{"bound", "path feasibility unknown"})
	}
}

func (pc *pathCtx) evalBool(t *Term) bool {
	return pc.st.Eval(t, pc.model).Sign() != 0
}

// addConstraint adds c to the path condition, keeping the model a witness.
func (pc *pathCtx) addConstraint(c *Term) {
	if c.isTrue() {
		return
	}
	if c.isFalse() {
		pc.prune("constraint false")
	}
	pc.pcs = append(pc.pcs, c)
	pc.solver.Assert(c)
	pc.learn(c, true)
	if pc.model != nil && pc.evalBool(c) {
		return
	}
	pc.model = nil
	pc.ensureModel()
}

// checkSat decides satisfiability of pcs ∧ extra; returns result and model.
func (pc *pathCtx) checkSat(extra *Term) (string, *Model) {
	pc.solver.Push()
	pc.solver.Assert(extra)
	r := pc.solver.Check()
	var m *Model
	if r == "sat" {
		if mm, ok := pc.solver.Model(pc.st.vars); ok {
			m = mm
		}
	}
	pc.solver.Pop()
	return r, m
}

func (pc *pathCtx) noteDecision(d dec) {
	pc.decs = append(pc.decs, d)
	pc.pos++
	if len(pc.decs) > pc.lim.MaxDecisions {
		panic(pathAbort{"bound", "max decisions per path"})
	}
}

func (pc *pathCtx) queue(d dec, m *Model) {
	p := make([]dec, len(pc.decs)+1)
	copy(p, pc.decs)
	p[len(pc.decs)] = d
	pc.pending = append(pc.pending, workItem{prefix: p, model: m})
}

// branch decides a symbolic condition; it returns the side taken.
func (pc *pathCtx) branch(cond *Term) bool {
	if cond.op == OpConst {
		return cond.val.Sign() != 0
	}
	if kv, ok := pc.known[cond.id]; ok {
		return kv
	}
	if r := pc.decideByRange(cond); r >= 0 {
		if checkRange {
			other := cond
			if r == 0 {
				other = cond
			} else {
				other = pc.st.Not(cond)
			}
			if res, _ := pc.checkSat(other); res == "sat" {
				panic(engineFault{"interval reasoning unsound for " + cond.String()})
			}
		}
		return r == 1
	}
	if pc.pos < len(pc.prefix) {
		d := pc.prefix[pc.pos]
		side := d.C == 1
		pc.decs = append(pc.decs, d)
		pc.pos++
		c := cond
		if !side {
			c = pc.st.Not(cond)
		}
		pc.learn(cond, side)
		pc.addConstraint(c)
		return side
	}
	pc.ensureModel()
	side := pc.evalBool(cond)
	taken, other := cond, pc.st.Not(cond)
	if !side {
		taken, other = other, taken
	}
	r, m := pc.checkSat(other)
	od := dec{C: 0}
	if !side {
		od.C = 1
	}
	switch r {
	case "sat":
		pc.queue(od, m)
	case "unsat":
	default:
		// keep the alternative; it will have to establish its own model
		pc.queue(od, nil)
	}
	td := dec{C: 1}
	if !side {
		td.C = 0
	}
	pc.noteDecision(td)
	pc.learn(cond, side)
	pc.pcs = append(pc.pcs, taken)
	pc.solver.Assert(taken)
	return side
}

func (pc *pathCtx) setLo(t *Term, v *big.Int) {
	if pc.rlo == nil {
		pc.rlo, pc.rhi = make(map[int]*big.Int), make(map[int]*big.Int)
	}
	if old, ok := pc.rlo[t.id]; !ok || old.Cmp(v) < 0 {
		pc.rlo[t.id] = v
	}
}
func (pc *pathCtx) setHi(t *Term, v *big.Int) {
	if pc.rlo == nil {
		pc.rlo, pc.rhi = make(map[int]*big.Int), make(map[int]*big.Int)
	}
	if v.Sign() < 0 {
		v = new(big.Int)
	}
	if old, ok := pc.rhi[t.id]; !ok || old.Cmp(v) > 0 {
		pc.rhi[t.id] = v
	}
}

// learnBounds extracts unsigned bounds from comparisons with constants.
func (pc *pathCtx) learnBounds(cond *Term, side bool) {
	if len(cond.args) != 2 {
		return
	}
	a, b := cond.args[0], cond.args[1]
	one := bigOne
	op := cond.op
	if (op == OpSLt || op == OpSLe) && a.sort > 0 {
		maxS := new(big.Int).Sub(new(big.Int).Lsh(bigOne, uint(a.sort-1)), bigOne)
		nonneg := func(t *Term) bool { _, hi := pc.urange(t, 0); return hi.Cmp(maxS) <= 0 }
		switch {
		case nonneg(a) && nonneg(b):
			if op == OpSLt {
				op = OpULt
			} else {
				op = OpULe
			}
		case side && a.op == OpConst && nonneg(a):
			// c <(=) b signed with c >= 0: b is non-negative as well
			pc.setHi(b, maxS)
			if op == OpSLt {
				pc.setLo(b, new(big.Int).Add(a.val, one))
			} else {
				pc.setLo(b, a.val)
			}
			return
		case !side && b.op == OpConst && nonneg(b):
			// not (a <(=) c) signed with c >= 0: a > c or a >= c, so a is non-negative
			pc.setHi(a, maxS)
			if op == OpSLt {
				pc.setLo(a, b.val)
			} else {
				pc.setLo(a, new(big.Int).Add(b.val, one))
			}
			return
		default:
			return
		}
	}
	switch op {
	case OpULt:
		if b.op == OpConst { // a < c
			if side {
				pc.setHi(a, new(big.Int).Sub(b.val, one))
			} else {
				pc.setLo(a, b.val)
			}
		} else if a.op == OpConst { // c < b
			if side {
				pc.setLo(b, new(big.Int).Add(a.val, one))
			} else {
				pc.setHi(b, a.val)
			}
		}
	case OpULe:
		if b.op == OpConst { // a <= c
			if side {
				pc.setHi(a, b.val)
			} else {
				pc.setLo(a, new(big.Int).Add(b.val, one))
			}
		} else if a.op == OpConst { // c <= b
			if side {
				pc.setLo(b, a.val)
			} else {
				pc.setHi(b, new(big.Int).Sub(a.val, one))
			}
		}
	case OpEq:
		if side && a.sort > 0 {
			if b.op == OpConst {
				pc.setLo(a, b.val)
				pc.setHi(a, b.val)
			} else if a.op == OpConst {
				pc.setLo(b, a.val)
				pc.setHi(b, a.val)
			}
		}
	}
}

// urange returns sound unsigned bounds of a bit-vector term under the path condition.
func (pc *pathCtx) urange(t *Term, depth int) (*big.Int, *big.Int) {
	if t.op == OpConst {
		return t.val, t.val
	}
	lo, hi := bigZero, maskOf(t.sort)
	if depth < 12 {
		switch t.op {
		case OpZExt:
			lo, hi = pc.urange(t.args[0], depth+1)
		case OpExtract:
			alo, ahi := pc.urange(t.args[0], depth+1)
			if t.p1 == t.args[0].sort-1 { // top bits: a >> p2
				lo, hi = new(big.Int).Rsh(alo, uint(t.p2)), new(big.Int).Rsh(ahi, uint(t.p2))
			} else if t.p2 == 0 && ahi.BitLen() <= t.p1+1 { // low bits, value fits
				lo, hi = alo, ahi
			}
		case OpAnd:
			if t.args[1].op == OpConst {
				_, ahi := pc.urange(t.args[0], depth+1)
				hi = t.args[1].val
				if ahi.Cmp(hi) < 0 {
					hi = ahi
				}
			}
		case OpOr:
			if t.args[1].op == OpConst {
				alo, ahi := pc.urange(t.args[0], depth+1)
				c := t.args[1].val
				// a|c >= max(a, c); a|c <= a + c
				lo = alo
				if c.Cmp(lo) > 0 {
					lo = c
				}
				s := new(big.Int).Add(ahi, c)
				if s.Cmp(hi) < 0 {
					hi = s
				}
			}
		case OpAdd:
			if t.args[1].op == OpConst {
				alo, ahi := pc.urange(t.args[0], depth+1)
				c := t.args[1].val
				s := new(big.Int).Add(ahi, c)
				if s.Cmp(maskOf(t.sort)) <= 0 {
					lo, hi = new(big.Int).Add(alo, c), s
				}
			}
		case OpIte:
			l1, h1 := pc.urange(t.args[1], depth+1)
			l2, h2 := pc.urange(t.args[2], depth+1)
			lo, hi = l1, h1
			if l2.Cmp(lo) < 0 {
				lo = l2
			}
			if h2.Cmp(hi) > 0 {
				hi = h2
			}
		case OpConcat:
			if t.args[0].op == OpConst && t.args[0].val.Sign() == 0 {
				lo, hi = pc.urange(t.args[1], depth+1)
			}
		}
	}
	if pc.rlo != nil {
		if v, ok := pc.rlo[t.id]; ok && v.Cmp(lo) > 0 {
			lo = v
		}
		if v, ok := pc.rhi[t.id]; ok && v.Cmp(hi) < 0 {
			hi = v
		}
	}
	return lo, hi
}

// decideByRange tries to decide a comparison from learned bounds: 1 true, 0 false, -1 unknown.
func (pc *pathCtx) decideByRange(cond *Term) int {
	switch cond.op {
	case OpBNot:
		r := pc.decideByRange(cond.args[0])
		if r < 0 {
			return r
		}
		return 1 - r
	case OpULt, OpULe, OpEq, OpSLt, OpSLe:
		a, b := cond.args[0], cond.args[1]
		if a.sort <= 0 {
			return -1
		}
		if a.op != OpConst && b.op != OpConst {
			return -1
		}
		alo, ahi := pc.urange(a, 0)
		blo, bhi := pc.urange(b, 0)
		op := cond.op
		if op == OpSLt || op == OpSLe {
			maxS := new(big.Int).Sub(new(big.Int).Lsh(bigOne, uint(a.sort-1)), bigOne)
			if ahi.Cmp(maxS) > 0 || bhi.Cmp(maxS) > 0 {
				return -1
			}
			if op == OpSLt {
				op = OpULt
			} else {
				op = OpULe
			}
		}
		switch op {
		case OpULt:
			if ahi.Cmp(blo) < 0 {
				return 1
			}
			if alo.Cmp(bhi) >= 0 {
				return 0
			}
		case OpULe:
			if ahi.Cmp(blo) <= 0 {
				return 1
			}
			if alo.Cmp(bhi) > 0 {
				return 0
			}
		case OpEq:
			if ahi.Cmp(blo) < 0 || bhi.Cmp(alo) < 0 {
				return 0
			}
			if alo.Cmp(ahi) == 0 && blo.Cmp(bhi) == 0 && alo.Cmp(blo) == 0 {
				return 1
			}
		}
	}
	return -1
}

// learn records literals implied by taking `side` of cond.
func (pc *pathCtx) learn(cond *Term, side bool) {
	if pc.known == nil {
		pc.known = make(map[int]bool)
	}
	pc.known[cond.id] = side
	pc.learnBounds(cond, side)
	if cond.op == OpBNot {
		pc.learn(cond.args[0], !side)
		return
	}
	if cond.op == OpBAnd && side {
		pc.learn(cond.args[0], true)
		pc.learn(cond.args[1], true)
	}
	if cond.op == OpBOr && !side {
		pc.learn(cond.args[0], false)
		pc.learn(cond.args[1], false)
	}
}

// choose makes an n-way decision that needs no solver.
func (pc *pathCtx) choose(n int) int {
	if n <= 1 {
		return 0
	}
	if pc.pos < len(pc.prefix) {
		d := pc.prefix[pc.pos]
		pc.decs = append(pc.decs, d)
		pc.pos++
		if d.C >= n {
			panic(engineFault{fmt.Sprintf("replay divergence: choice %d of %d", d.C, n)})
		}
		return d.C
	}
	for k := n - 1; k >= 1; k-- {
		pc.queue(dec{C: k}, pc.model)
	}
	pc.noteDecision(dec{C: 0})
	return 0
}

// concretize forks on the feasible values of t (at most cap of them).
func (pc *pathCtx) concretize(t *Term, cap int, what string) *big.Int {
	if t.op == OpConst {
		return t.val
	}
	var d dec
	if pc.pos < len(pc.prefix) {
		d = pc.prefix[pc.pos]
		if !d.Val {
			panic(engineFault{"replay divergence: expected concretisation entry"})
		}
	} else {
		d = dec{Val: true}
	}
	for _, e := range d.Excl {
		pc.addConstraint(pc.st.Not(pc.st.Eq(t, pc.constLike(t, e))))
	}
	if d.Pick == nil {
		if len(d.Excl) >= cap {
			pc.cuts = append(pc.cuts, fmt.Sprintf("%s: more than %d values", what, cap))
			panic(pathAbort{"cut", what + ": concretisation cap"})
		}
		pc.ensureModel()
		v := pc.st.Eval(t, pc.model)
		d.Pick = new(big.Int).Set(v)
		// queue the alternative "none of excl+pick"
		ne := pc.st.Not(pc.st.Eq(t, pc.constLike(t, v)))
		r, m := pc.checkSat(ne)
		if r != "unsat" {
			alt := dec{Val: true, Excl: append(append([]*big.Int(nil), d.Excl...), d.Pick)}
			if r != "sat" {
				m = nil
			}
			pc.queue(alt, m)
		}
	}
	pc.decs = append(pc.decs, d)
	pc.pos++
	if len(pc.decs) > pc.lim.MaxDecisions {
		panic(pathAbort{"bound", "max decisions per path"})
	}
	pc.addConstraint(pc.st.Eq(t, pc.constLike(t, d.Pick)))
	return d.Pick
}

// smallSet enumerates the feasible values of t if there are at most k of them
// (nil otherwise). The outcome is recorded as a decision so that replays do not
// repeat the queries.
func (pc *pathCtx) smallSet(t *Term, k int) []*big.Int {
	if pc.pos < len(pc.prefix) {
		d := pc.prefix[pc.pos]
		pc.decs = append(pc.decs, d)
		pc.pos++
		if d.C == 0 {
			return nil
		}
		return d.Excl
	}
	var vals []*big.Int
	pc.solver.Push()
	complete := false
	for len(vals) <= k {
		r := pc.solver.Check()
		if r == "unsat" {
			complete = true
			break
		}
		if r != "sat" {
			break
		}
		m, ok := pc.solver.Model([]*Term{})
		_ = m
		// fetch the value of t itself
		pc.solver.define(t)
		pc.solver.rawNoLog("(get-value (" + t.leafStr() + "))")
		txt, err := pc.solver.readSexp()
		if err != nil || !ok {
			break
		}
		toks := tokenize(txt)
		// ((name value))
		if len(toks) < 4 {
			break
		}
		// skip "(" "(" and the name token(s): find value at the end
		v, _, okv := parseValue(toks, valuePos(toks))
		if !okv {
			break
		}
		vals = append(vals, v)
		pc.solver.Assert(pc.st.Not(pc.st.Eq(t, pc.constLike(t, v))))
	}
	pc.solver.Pop()
	if !complete || len(vals) == 0 || len(vals) > k {
		pc.noteDecision(dec{C: 0})
		return nil
	}
	pc.noteDecision(dec{C: len(vals), Excl: vals})
	return vals
}

// valuePos finds the start of the value in "((name value))" where name may itself be a compound term.
func valuePos(toks []string) int {
	// toks[0]="(" toks[1]="(" then name: either a symbol or a parenthesised expr
	p := 2
	if toks[p] == "(" {
		depth := 0
		for ; p < len(toks); p++ {
			if toks[p] == "(" {
				depth++
			} else if toks[p] == ")" {
				depth--
				if depth == 0 {
					p++
					break
				}
			}
		}
		return p
	}
	return p + 1
}

func (pc *pathCtx) constLike(t *Term, v *big.Int) *Term {
	switch {
	case t.sort == SortInt:
		return pc.st.IntC(v)
	case t.sort == SortBool:
		return pc.st.Bool(v.Sign() != 0)
	}
	return pc.st.BV(v, t.sort)
}

func (pc *pathCtx) snapshotNondet() []NondetRec {
	out := make([]NondetRec, len(pc.nondet))
	for i, r := range pc.nondet {
		out[i] = r
		if r.t != nil {
			v := pc.st.Eval(r.t, pc.model)
			if r.t.sort == SortInt {
				out[i].Val = v.String()
			} else {
				out[i].Val = "0x" + v.Text(16)
			}
		}
		out[i].t = nil
	}
	return out
}

func (pc *pathCtx) recordFailure(kind, label, site, msg string, stack []string) {
	pc.ensureModel()
	obs := append([]string(nil), pc.observed...)
	pc.failures = append(pc.failures, Failure{Label: label, Kind: kind, Site: site, Msg: msg,
		Nondet: pc.snapshotNondet(), Observed: obs, Decisions: len(pc.decs), Stack: stack})
}

// assert checks obligation c on the current path.
func (pc *pathCtx) assert(c *Term, label, site string, stack []string) {
	pc.obligations++
	if c.isTrue() {
		pc.discharged++
		pc.trivial++
		return
	}
	pc.ensureModel()
	if c.isFalse() {
		// violated on the whole path: record it and go on, so that assertions further down the same
		// path are still decided (a listed known finding must not hide an unlisted violation)
		pc.recordFailure("assert", label, site, "", stack)
		return
	}
	if !pc.evalBool(c) {
		pc.recordFailure("assert", label, site, "", stack)
		pc.addConstraint(c) // continue only where it holds
		return
	}
	r, m := pc.checkSat(pc.st.Not(c))
	switch r {
	case "unsat":
		pc.discharged++
	case "sat":
		if m == nil {
			pc.inconcl = append(pc.inconcl, "assert "+label+": sat without model")
			return
		}
		old := pc.model
		pc.model = m
		pc.recordFailure("assert", label, site, "", stack)
		pc.model = old
		pc.addConstraint(c)
	default:
		pc.inconcl = append(pc.inconcl, "assert "+label+": solver unknown")
	}
}

// ---- results

type PathResult struct {
	Outcome     string
	Msg         string
	Steps       int
	Decisions   int
	Pending     []workItem
	Covers      []string
	Failures    []Failure
	Obligations int
	Discharged  int
	Trivial     int
	Inconcl     []string
	Cuts        []string
	Sample      []NondetRec
}

func (pc *pathCtx) result(outcome, msg string) *PathResult {
	cv := make([]string, 0, len(pc.covers))
	for k := range pc.covers {
		cv = append(cv, k)
	}
	sort.Strings(cv)
	if outcome == "return" || outcome == "panic-expected" {
		// implicit obligation of every harness: the path ends without an undeclared target panic
		pc.obligations++
		pc.discharged++
	} else if outcome == "panic" {
		pc.obligations++
	}
	r := &PathResult{Outcome: outcome, Msg: msg, Steps: pc.steps, Decisions: len(pc.decs), Pending: pc.pending,
		Covers: cv, Failures: pc.failures, Obligations: pc.obligations, Discharged: pc.discharged, Trivial: pc.trivial,
		Inconcl: pc.inconcl, Cuts: pc.cuts}
	if pc.model != nil && (outcome == "return" || outcome == "panic") {
		r.Sample = pc.snapshotNondet()
	}
	return r
}
