package interp

// Exploration driver: prefix worklist, workers, aggregation.

import (
	"fmt"
	"os"
	"go/token"
	"math/big"
	"regexp"
	"runtime"
	"runtime/debug"
	"sort"
	"strings"
	"sync"
	"time"

	"golang.org/x/tools/go/ssa"
)

type FailureGroup struct {
	Label   string    `json:"label"`
	Kind    string    `json:"kind"`
	Site    string    `json:"site"`
	Msg     string    `json:"msg,omitempty"`
	Count   int       `json:"count"`
	Samples []Failure `json:"samples"`
}

type RunResult struct {
	Harness      string
	Paths        int
	Outcomes     map[string]int
	Decisions    int
	Steps        int64
	Obligations  int
	Discharged   int
	Trivial      int
	Covers       map[string]int
	Failures     []*FailureGroup
	Inconclusive []string // reasons (deduplicated)
	Cuts         []string
	Funcs        []string
	Samples      [][]NondetRec
	Poisoned     []string
	WallS        float64
	TimedOut     bool
	PathLimit    bool
	ExpectedPanics int
}

type explorer struct {
	mu       sync.Mutex
	cond     *sync.Cond
	stack    []workItem
	active   int
	done     bool
	res      *RunResult
	fgroups  map[string]*FailureGroup
	inconc   map[string]bool
	cuts     map[string]bool
	funcs    map[string]bool
	maxPaths int
	deadline time.Time
	expect   []*regexp.Regexp
}

func describePanic(i *interpreter, fn *ssa.Function, p targetPanic) string {
	switch v := p.v.(type) {
	case iface:
		switch s := v.v.(type) {
		case string:
			return s
		}
		if v.t != nil {
			fr := &frame{i: i, fn: fn}
			r := fmtArg(fr, v, 0)
			return fmt.Sprint(r)
		}
		return "nil"
	case string:
		return v
	}
	return fmt.Sprintf("%v", p.v)
}

// runPath executes one path of fn under item.
func runPath(i *interpreter, solver *Solver, fn *ssa.Function, item workItem, expect []*regexp.Regexp) (res *PathResult) {
	pc := &pathCtx{st: NewTermStore(), solver: solver, model: item.model, prefix: item.prefix, lim: i.cfg.Lim,
		covers: make(map[string]bool), ufCalls: make(map[string][]ufCall), ghost: make(map[string]value)}
	if pc.model == nil && len(item.prefix) == 0 {
		pc.model = &Model{vals: map[string]*big.Int{}}
	}
	solver.Reset()
	i.pc = pc
	defer func() {
		r := recover()
		if r == nil {
			return
		}
		switch r := r.(type) {
		case pathAbort:
			msg := r.msg
			if r.kind == "bound" && pc.model != nil && os.Getenv("GOSYM_BOUND_SAMPLE") != "" {
				var nd []string
				for _, n := range pc.snapshotNondet() {
					nd = append(nd, n.Name+"="+n.Val)
				}
				msg += " [sample: " + strings.Join(nd, " ") + "]"
			}
			res = pc.result(r.kind, msg)
		case engineFault:
			res = pc.result("fault", r.msg)
		case targetPanic:
			msg := describePanic(i, fn, r)
			full := msg + " @ " + r.site
			for _, re := range expect {
				if re.MatchString(full) {
					res = pc.result("panic-expected", full)
					return
				}
			}
			func() {
				defer func() {
					if r2 := recover(); r2 != nil {
						if pa, ok := r2.(pathAbort); ok {
							res = pc.result(pa.kind, pa.msg)
							return
						}
						panic(r2)
					}
				}()
				label := "panic"
				if r.runtime {
					label = "runtime-panic"
				}
				pc.recordFailure("panic", label, r.site, msg, r.stack)
				res = pc.result("panic", full)
			}()
		case runtime.Error:
			st := string(debug.Stack())
			// keep the interesting part of the engine stack
			lines := strings.Split(st, "\n")
			var keep []string
			for _, l := range lines {
				if strings.Contains(l, "gosym/interp") && !strings.Contains(l, "run.go") {
					keep = append(keep, strings.TrimSpace(l))
				}
				if len(keep) >= 6 {
					break
				}
			}
			where := ""
			if i.curFrame != nil {
				where = " in " + i.curFrame.fn.String()
			}
			res = pc.result("fault", "engine error: "+r.Error()+where+" ["+strings.Join(keep, " | ")+"]")
		default:
			panic(r)
		}
	}()
	i.resetPath()
	if len(fn.Params) != 1 {
		panic(engineFault{"harness must take exactly one *VerifV parameter"})
	}
	vobj := zero(deref(fn.Params[0].Type()))
	call(i, nil, token.NoPos, fn, []value{&vobj})
	return pc.result("return", "")
}

// Explore runs harness fn to exhaustion (or until limits) with the given number of workers.
func Explore(prog *ssa.Program, cfg *Config, fn *ssa.Function, workers, maxPaths int, budget time.Duration, solverTimeoutMs int, crossEvery int, solverKind string) *RunResult {
	ex := &explorer{maxPaths: maxPaths, deadline: time.Now().Add(budget)}
	ex.cond = sync.NewCond(&ex.mu)
	ex.res = &RunResult{Harness: fn.String(), Outcomes: make(map[string]int), Covers: make(map[string]int)}
	ex.fgroups = make(map[string]*FailureGroup)
	ex.inconc = make(map[string]bool)
	ex.cuts = make(map[string]bool)
	ex.funcs = make(map[string]bool)
	for _, e := range cfg.ExpectPanics {
		ex.expect = append(ex.expect, regexp.MustCompile(e))
	}
	ex.stack = []workItem{{}}
	t0 := time.Now()
	var wg sync.WaitGroup
	var poisoned []string
	for w := 0; w < workers; w++ {
		wg.Add(1)
		go func(w int) {
			defer wg.Done()
			solver, err := NewSolver(solverKind, solverTimeoutMs)
			if err != nil {
				ex.mu.Lock()
				ex.inconc["cannot start solver: "+err.Error()] = true
				ex.done = true
				ex.cond.Broadcast()
				ex.mu.Unlock()
				return
			}
			solver.CrossEvery = crossEvery
			defer solver.Close()
			in := NewInterpreter(prog, cfg)
			in.funcsSeen = make(map[*ssa.Function]bool)
			for {
				ex.mu.Lock()
				for len(ex.stack) == 0 && ex.active > 0 && !ex.done {
					ex.cond.Wait()
				}
				if ex.done || (len(ex.stack) == 0 && ex.active == 0) {
					ex.done = true
					ex.cond.Broadcast()
					ex.mu.Unlock()
					break
				}
				item := ex.stack[len(ex.stack)-1]
				ex.stack = ex.stack[:len(ex.stack)-1]
				ex.active++
				ex.mu.Unlock()

				pr := runPath(in, solver, fn, item, ex.expect)

				ex.mu.Lock()
				ex.active--
				ex.absorb(pr)
				if w == 0 && poisoned == nil {
					poisoned = append([]string{}, in.poisoned...)
				}
				if ex.res.Paths >= ex.maxPaths {
					ex.res.PathLimit = len(ex.stack) > 0 || ex.active > 0
					ex.done = true
				}
				if time.Now().After(ex.deadline) {
					ex.res.TimedOut = len(ex.stack) > 0 || ex.active > 0
					ex.done = true
				}
				ex.cond.Broadcast()
				ex.mu.Unlock()
			}
			ex.mu.Lock()
			for f := range in.funcsSeen {
				ex.funcs[f.String()] = true
			}
			ex.mu.Unlock()
		}(w)
	}
	wg.Wait()
	r := ex.res
	r.WallS = time.Since(t0).Seconds()
	r.Poisoned = poisoned
	for _, g := range ex.fgroups {
		r.Failures = append(r.Failures, g)
	}
	sort.Slice(r.Failures, func(a, b int) bool { return r.Failures[a].Label+r.Failures[a].Site < r.Failures[b].Label+r.Failures[b].Site })
	for k := range ex.inconc {
		r.Inconclusive = append(r.Inconclusive, k)
	}
	sort.Strings(r.Inconclusive)
	for k := range ex.cuts {
		r.Cuts = append(r.Cuts, k)
	}
	sort.Strings(r.Cuts)
	for k := range ex.funcs {
		r.Funcs = append(r.Funcs, k)
	}
	sort.Strings(r.Funcs)
	if r.TimedOut {
		r.Inconclusive = append(r.Inconclusive, "time budget exhausted with unexplored paths")
	}
	if r.PathLimit {
		r.Inconclusive = append(r.Inconclusive, "path limit reached with unexplored paths")
	}
	return r
}

func (ex *explorer) absorb(pr *PathResult) {
	r := ex.res
	r.Paths++
	r.Outcomes[pr.Outcome]++
	r.Decisions += pr.Decisions
	r.Steps += int64(pr.Steps)
	r.Obligations += pr.Obligations
	r.Discharged += pr.Discharged
	r.Trivial += pr.Trivial
	for _, c := range pr.Covers {
		r.Covers[c]++
	}
	for _, f := range pr.Failures {
		key := f.Kind + "|" + f.Label + "|" + f.Site
		g := ex.fgroups[key]
		if g == nil {
			g = &FailureGroup{Label: f.Label, Kind: f.Kind, Site: f.Site, Msg: f.Msg}
			ex.fgroups[key] = g
		}
		g.Count++
		if len(g.Samples) < 2 {
			g.Samples = append(g.Samples, f)
		}
	}
	for _, s := range pr.Inconcl {
		ex.inconc[s] = true
	}
	for _, s := range pr.Cuts {
		ex.cuts[s] = true
	}
	switch pr.Outcome {
	case "fault":
		ex.inconc["engine: "+pr.Msg] = true
	case "bound":
		ex.inconc["bound: "+pr.Msg] = true
	case "blocked":
		ex.inconc["blocked: "+pr.Msg] = true
	case "panic-expected":
		r.ExpectedPanics++
	}
	if pr.Sample != nil && len(r.Samples) < 3 && len(pr.Sample) > 0 {
		r.Samples = append(r.Samples, pr.Sample)
	}
	for _, it := range pr.Pending {
		if len(ex.stack) > 400 {
			it.model = nil // bound memory: deep in the stack the witness is recomputed when the item is popped
		}
		ex.stack = append(ex.stack, it)
	}
}
