package interp

// SMT solver driver: one long-lived `z3 -in` per worker, push/pop per query,
// one-shot portfolio fallback (z3-new, cvc5) when the primary answers unknown.

import (
	"bufio"
	"bytes"
	"fmt"
	"io"
	"math/big"
	"os"
	"os/exec"
	"strings"
	"sync"
	"sync/atomic"
	"time"
)

type SolverStats struct {
	Queries    int64
	Sat        int64
	Unsat      int64
	Unknown    int64
	Fallbacks  int64
	NanosZ3    int64
	NanosOther int64
	Errors     int64
	CrossOK    int64
	CrossBad   int64
}

var GlobalSolverStats SolverStats

// QueryLog prints one line per solver query (diagnostics).
var QueryLog = os.Getenv("GOSYM_QLOG") != ""

type scope struct {
	defined  []int    // term ids defined in this scope
	declared []string // var names declared in this scope
	logLen   int
}

type Solver struct {
	cmd       *exec.Cmd
	in        io.WriteCloser
	out       *bufio.Reader
	timeoutMs int
	defined   map[int]bool
	declared  map[string]bool
	scopes    []scope
	log       []string // commands in live scopes (for portfolio replays)
	dead      bool
	kind      string
	lastFallback bool   // the last sat/unsat came from a fallback solver
	fbModel   *Model    // model delivered by the fallback solver (if any)
	CrossEvery int // re-ask every n-th decided query to a second solver (0 = never)
	nq        int
	LastErr   string
}

// NewSolver starts a solver process; kind is "z3" (default) or "cvc5int"
// (cvc5 --incremental --solve-bv-as-int=sum, for *2/3-style arithmetic).
func NewSolver(kind string, timeoutMs int) (*Solver, error) {
	if kind == "" {
		kind = "z3"
	}
	s := &Solver{timeoutMs: timeoutMs, kind: kind}
	if err := s.start(); err != nil {
		return nil, err
	}
	return s, nil
}

func (s *Solver) start() error {
	if s.kind == "cvc5int" {
		s.cmd = exec.Command("cvc5", "--incremental", "--solve-bv-as-int=sum", "--lang=smt2", fmt.Sprintf("--tlimit-per=%d", s.timeoutMs))
	} else {
		s.cmd = exec.Command("z3", "-in", "-smt2")
	}
	var err error
	s.in, err = s.cmd.StdinPipe()
	if err != nil {
		return err
	}
	op, err := s.cmd.StdoutPipe()
	if err != nil {
		return err
	}
	s.cmd.Stderr = s.cmd.Stdout
	s.out = bufio.NewReaderSize(op, 1<<16)
	if err := s.cmd.Start(); err != nil {
		return err
	}
	s.dead = false
	s.resetState()
	return nil
}

func (s *Solver) resetState() {
	s.defined = make(map[int]bool)
	s.declared = make(map[string]bool)
	s.scopes = []scope{{}}
	s.log = s.log[:0]
	if s.kind == "cvc5int" {
		s.rawNoLog("(set-logic ALL)")
		s.rawNoLog("(set-option :produce-models true)")
	} else {
		s.rawNoLog(fmt.Sprintf("(set-option :timeout %d)", s.timeoutMs))
	}
}

func (s *Solver) Close() {
	if s.cmd != nil && s.cmd.Process != nil {
		s.in.Close()
		s.cmd.Process.Kill()
		s.cmd.Wait()
	}
}

// Reset clears all assertions, declarations and definitions.
func (s *Solver) Reset() {
	if s.dead {
		s.Close()
		if err := s.start(); err != nil {
			panic(engineFault{"cannot restart z3: " + err.Error()})
		}
		return
	}
	s.rawNoLog("(reset)")
	s.resetState()
}

func (s *Solver) rawNoLog(line string) {
	if _, err := io.WriteString(s.in, line+"\n"); err != nil {
		s.dead = true
	}
}

func (s *Solver) raw(line string) {
	s.log = append(s.log, line)
	s.rawNoLog(line)
}

func (s *Solver) Push() {
	s.scopes = append(s.scopes, scope{logLen: len(s.log)})
	s.rawNoLog("(push 1)")
}

func (s *Solver) Pop() {
	sc := s.scopes[len(s.scopes)-1]
	s.scopes = s.scopes[:len(s.scopes)-1]
	for _, id := range sc.defined {
		delete(s.defined, id)
	}
	for _, n := range sc.declared {
		delete(s.declared, n)
	}
	s.log = s.log[:sc.logLen]
	s.rawNoLog("(pop 1)")
}

// define makes sure t (and everything below it) is known to the solver.
func (s *Solver) define(t *Term) {
	switch t.op {
	case OpConst:
		return
	case OpVar:
		if !s.declared[t.name] {
			s.declared[t.name] = true
			sc := &s.scopes[len(s.scopes)-1]
			sc.declared = append(sc.declared, t.name)
			s.raw(fmt.Sprintf("(declare-const %s %s)", t.name, sortStr(t.sort)))
		}
		return
	}
	if s.defined[t.id] {
		return
	}
	for _, a := range t.args {
		s.define(a)
	}
	s.defined[t.id] = true
	sc := &s.scopes[len(s.scopes)-1]
	sc.defined = append(sc.defined, t.id)
	s.raw(fmt.Sprintf("(define-fun t%d () %s %s)", t.id, sortStr(t.sort), t.defStr()))
}

func (s *Solver) Assert(t *Term) {
	if t.sort != SortBool {
		panic("Assert: not Bool")
	}
	if t.isTrue() {
		return
	}
	s.define(t)
	s.raw("(assert " + t.leafStr() + ")")
}

func (s *Solver) readLine() (string, error) {
	type res struct {
		s   string
		err error
	}
	ch := make(chan res, 1)
	go func() {
		l, err := s.out.ReadString('\n')
		ch <- res{l, err}
	}()
	select {
	case r := <-ch:
		return strings.TrimSpace(r.s), r.err
	case <-time.After(time.Duration(s.timeoutMs)*time.Millisecond + 30*time.Second):
		s.dead = true
		s.cmd.Process.Kill()
		return "", fmt.Errorf("solver read timeout")
	}
}

// Check returns "sat", "unsat" or "unknown".
func (s *Solver) Check() string {
	atomic.AddInt64(&GlobalSolverStats.Queries, 1)
	t0 := time.Now()
	s.rawNoLog("(check-sat)")
	res := "unknown"
	for {
		l, err := s.readLine()
		if err != nil {
			s.LastErr = err.Error()
			s.dead = true
			atomic.AddInt64(&GlobalSolverStats.Errors, 1)
			res = "unknown"
			break
		}
		if l == "" {
			continue
		}
		if l == "sat" || l == "unsat" || l == "unknown" {
			res = l
			break
		}
		if strings.HasPrefix(l, "(error") {
			s.LastErr = l
			atomic.AddInt64(&GlobalSolverStats.Errors, 1)
			// keep reading: z3 still prints a result after an error line; it is not trusted.
			for {
				l2, err := s.readLine()
				if err != nil || l2 == "sat" || l2 == "unsat" || l2 == "unknown" {
					break
				}
			}
			res = "error"
			break
		}
		if strings.HasPrefix(l, "timeout") {
			continue
		}
		// unexpected chatter
		s.LastErr = l
	}
	atomic.AddInt64(&GlobalSolverStats.NanosZ3, int64(time.Since(t0)))
	if QueryLog && time.Since(t0) > 3*time.Second {
		os.WriteFile(fmt.Sprintf("/tmp/slowq-%d.smt2", time.Now().UnixNano()), []byte(strings.Join(s.log, "\n")+"\n(check-sat)\n"), 0o644)
	}
	if QueryLog {
		fmt.Fprintf(os.Stderr, "query: %s %.3fs (script %d lines)\n", res, time.Since(t0).Seconds(), len(s.log))
	}
	if res == "error" {
		panic(engineFault{"solver error: " + s.LastErr})
	}
	s.lastFallback = false
	s.fbModel = nil
	if res == "unknown" {
		atomic.AddInt64(&GlobalSolverStats.Fallbacks, 1)
		res = s.fallback()
		s.lastFallback = true
	} else if s.CrossEvery > 0 {
		s.nq++
		if s.nq%s.CrossEvery == 0 {
			r2 := s.fallback()
			if r2 != "unknown" {
				if r2 == res {
					atomic.AddInt64(&GlobalSolverStats.CrossOK, 1)
				} else {
					atomic.AddInt64(&GlobalSolverStats.CrossBad, 1)
					panic(engineFault{fmt.Sprintf("solver disagreement: z3=%s other=%s", res, r2)})
				}
			}
		}
	}
	switch res {
	case "sat":
		atomic.AddInt64(&GlobalSolverStats.Sat, 1)
	case "unsat":
		atomic.AddInt64(&GlobalSolverStats.Unsat, 1)
	default:
		atomic.AddInt64(&GlobalSolverStats.Unknown, 1)
	}
	if s.dead {
		// restart and replay the live script so later queries work
		logCopy := append([]string(nil), s.log...)
		scopes := append([]scope(nil), s.scopes...)
		defined, declared := s.defined, s.declared
		s.Close()
		if err := s.start(); err == nil {
			s.defined, s.declared, s.scopes = defined, declared, scopes
			idx := 0
			for si, sc := range scopes {
				if si > 0 {
					for ; idx < sc.logLen; idx++ {
						s.rawNoLog(logCopy[idx])
					}
					s.rawNoLog("(push 1)")
				}
			}
			for ; idx < len(logCopy); idx++ {
				s.rawNoLog(logCopy[idx])
			}
			s.log = logCopy
		}
	}
	return res
}

type fbres struct {
	res string
	m   *Model
}

// fallback replays the live script one-shot into the other solvers.
func (s *Solver) fallback() string {
	var names []string
	for n := range s.declared {
		names = append(names, n)
	}
	getv := ""
	if len(names) > 0 {
		getv = "(get-value (" + strings.Join(names, " ") + "))\n"
	}
	script := "(set-option :produce-models true)\n" + strings.Join(s.log, "\n") + "\n(check-sat)\n" + getv
	t0 := time.Now()
	defer func() { atomic.AddInt64(&GlobalSolverStats.NanosOther, int64(time.Since(t0))) }()
	type cand struct {
		name string
		args []string
		pre  string
	}
	secs := s.timeoutMs / 1000
	if secs < 1 {
		secs = 1
	}
	cands := []cand{
		{"cvc5", []string{"--lang=smt2", "--solve-bv-as-int=sum", fmt.Sprintf("--tlimit=%d", s.timeoutMs)}, "(set-logic ALL)\n"},
		{"z3-new", []string{"-in", "-smt2", fmt.Sprintf("-T:%d", secs)}, ""},
		{"cvc5", []string{"--lang=smt2", fmt.Sprintf("--tlimit=%d", s.timeoutMs)}, "(set-logic ALL)\n"},
	}
	if s.kind == "cvc5int" {
		cands[0] = cand{"z3", []string{"-in", "-smt2", fmt.Sprintf("-T:%d", secs)}, ""}
	}
	results := make(chan fbres, len(cands))
	var wg sync.WaitGroup
	var cmds []*exec.Cmd
	var mu sync.Mutex
	for _, c := range cands {
		c := c
		wg.Add(1)
		go func() {
			defer wg.Done()
			cmd := exec.Command(c.name, c.args...)
			cmd.Stdin = strings.NewReader(c.pre + script)
			var out bytes.Buffer
			cmd.Stdout = &out
			cmd.Stderr = &out
			mu.Lock()
			cmds = append(cmds, cmd)
			mu.Unlock()
			cmd.Run()
			o := out.String()
			lines := strings.Split(o, "\n")
			for k, l := range lines {
				l = strings.TrimSpace(l)
				if strings.HasPrefix(l, "(error") {
					// an error before the verdict: the solver may have dropped an assertion
					results <- fbres{res: "unknown"}
					return
				}
				if l == "unsat" {
					results <- fbres{res: l}
					return
				}
				if l == "sat" {
					m := &Model{vals: make(map[string]*big.Int)}
					if parseValues(strings.Join(lines[k+1:], " "), m) {
						results <- fbres{res: l, m: m}
					} else {
						results <- fbres{res: l}
					}
					return
				}
			}
			results <- fbres{res: "unknown"}
		}()
	}
	res := "unknown"
	for i := 0; i < len(cands); i++ {
		r := <-results
		if r.res == "sat" || r.res == "unsat" {
			res = r.res
			s.fbModel = r.m
			break
		}
	}
	mu.Lock()
	for _, c := range cmds {
		if c.Process != nil {
			c.Process.Kill()
		}
	}
	mu.Unlock()
	go wg.Wait()
	return res
}

// Model fetches values for vars after a "sat" answer from the primary solver.
// If the primary did not produce the sat (fallback), ok=false.
func (s *Solver) Model(vars []*Term) (*Model, bool) {
	if s.lastFallback {
		if s.fbModel != nil {
			return s.fbModel, true
		}
		return nil, false
	}
	m := &Model{vals: make(map[string]*big.Int)}
	if len(vars) == 0 {
		return m, true
	}
	const chunk = 400
	for i := 0; i < len(vars); i += chunk {
		j := i + chunk
		if j > len(vars) {
			j = len(vars)
		}
		var sb strings.Builder
		sb.WriteString("(get-value (")
		n := 0
		for _, v := range vars[i:j] {
			if s.declared[v.name] {
				sb.WriteString(v.name)
				sb.WriteString(" ")
				n++
			}
		}
		sb.WriteString("))")
		if n == 0 {
			continue
		}
		s.rawNoLog(sb.String())
		txt, err := s.readSexp()
		if err != nil || strings.HasPrefix(txt, "(error") {
			return nil, false
		}
		if !parseValues(txt, m) {
			return nil, false
		}
	}
	return m, true
}

// readSexp reads one balanced s-expression from the solver.
func (s *Solver) readSexp() (string, error) {
	var sb strings.Builder
	depth := 0
	started := false
	for {
		l, err := s.readLine()
		if err != nil {
			return "", err
		}
		if l == "" && !started {
			continue
		}
		sb.WriteString(l)
		sb.WriteString(" ")
		for _, c := range l {
			if c == '(' {
				depth++
				started = true
			} else if c == ')' {
				depth--
			}
		}
		if started && depth <= 0 {
			return sb.String(), nil
		}
		if !started {
			return sb.String(), nil
		}
	}
}

// parseValues parses "((name value) (name value) ...)".
func parseValues(txt string, m *Model) bool {
	toks := tokenize(txt)
	pos := 0
	if pos >= len(toks) || toks[pos] != "(" {
		return false
	}
	pos++
	for pos < len(toks) && toks[pos] == "(" {
		pos++
		if pos >= len(toks) {
			return false
		}
		name := toks[pos]
		pos++
		v, np, ok := parseValue(toks, pos)
		if !ok {
			return false
		}
		pos = np
		if pos >= len(toks) || toks[pos] != ")" {
			return false
		}
		pos++
		m.vals[name] = v
	}
	return true
}

func tokenize(s string) []string {
	var toks []string
	i := 0
	for i < len(s) {
		c := s[i]
		switch {
		case c == '(' || c == ')':
			toks = append(toks, string(c))
			i++
		case c == ' ' || c == '\n' || c == '\t' || c == '\r':
			i++
		default:
			j := i
			for j < len(s) && s[j] != '(' && s[j] != ')' && s[j] != ' ' && s[j] != '\n' && s[j] != '\t' && s[j] != '\r' {
				j++
			}
			toks = append(toks, s[i:j])
			i = j
		}
	}
	return toks
}

func parseValue(toks []string, pos int) (*big.Int, int, bool) {
	if pos >= len(toks) {
		return nil, pos, false
	}
	t := toks[pos]
	switch {
	case t == "true":
		return big.NewInt(1), pos + 1, true
	case t == "false":
		return big.NewInt(0), pos + 1, true
	case strings.HasPrefix(t, "#x"):
		v, ok := new(big.Int).SetString(t[2:], 16)
		return v, pos + 1, ok
	case strings.HasPrefix(t, "#b"):
		v, ok := new(big.Int).SetString(t[2:], 2)
		return v, pos + 1, ok
	case t == "(":
		// (- n) or (_ bvN w)
		if pos+1 < len(toks) && toks[pos+1] == "-" {
			v, np, ok := parseValue(toks, pos+2)
			if !ok || np >= len(toks) || toks[np] != ")" {
				return nil, pos, false
			}
			return new(big.Int).Neg(v), np + 1, true
		}
		if pos+3 < len(toks) && toks[pos+1] == "_" && strings.HasPrefix(toks[pos+2], "bv") {
			v, ok := new(big.Int).SetString(toks[pos+2][2:], 10)
			if !ok || toks[pos+4] != ")" {
				return nil, pos, false
			}
			return v, pos + 5, true
		}
		return nil, pos, false
	default:
		v, ok := new(big.Int).SetString(t, 10)
		return v, pos + 1, ok
	}
}
