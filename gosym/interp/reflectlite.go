package interp

// A deliberately small model of package reflect: enough to drive leaf
// functions that receive a reflect.Value for a scalar, pointer, byte slice or
// *big.Int destination. Everything else in reflect stays unmodelled (fault).

import (
	"fmt"
	"go/types"
	"reflect"
)

// reflect.Value is represented with the target's own 3-field shape:
// field0 = rtype{t}, field1 = payload (the value, or its address when addressable), field2 = flags.
const rvAddr = uintptr(1)

func mkRV(t types.Type, payload value, flags uintptr) value {
	return structure{rtype{t}, payload, flags}
}

func rvParts(v value) (types.Type, value, uintptr) {
	s, ok := v.(structure)
	if !ok || len(s) != 3 {
		panic(engineFault{"reflect.Value with foreign representation"})
	}
	rt, ok := s[0].(rtype)
	if !ok {
		panic(engineFault{"zero or foreign reflect.Value"})
	}
	fl, _ := s[2].(uintptr)
	return rt.t, s[1], fl
}

func rvGet(v value) (types.Type, value) {
	t, p, fl := rvParts(v)
	if fl&rvAddr != 0 {
		return t, load(t, p.(*value))
	}
	return t, p
}

func rvAddrOf(fr *frame, v value) (types.Type, *value) {
	t, p, fl := rvParts(v)
	if fl&rvAddr == 0 {
		rtPanic(fr.caller, "reflect: call of reflect.Value.Set on unaddressable value")
	}
	return t, p.(*value)
}

func (i *interpreter) rtypeIface(t types.Type) value {
	rt := i.namedType("reflect", "rtype")
	return iface{t: types.NewPointer(rt), v: rtype{t}}
}

func goKind(t types.Type) reflect.Kind {
	switch u := t.Underlying().(type) {
	case *types.Basic:
		switch u.Kind() {
		case types.Bool:
			return reflect.Bool
		case types.Int:
			return reflect.Int
		case types.Int8:
			return reflect.Int8
		case types.Int16:
			return reflect.Int16
		case types.Int32:
			return reflect.Int32
		case types.Int64:
			return reflect.Int64
		case types.Uint:
			return reflect.Uint
		case types.Uint8:
			return reflect.Uint8
		case types.Uint16:
			return reflect.Uint16
		case types.Uint32:
			return reflect.Uint32
		case types.Uint64:
			return reflect.Uint64
		case types.Uintptr:
			return reflect.Uintptr
		case types.String:
			return reflect.String
		case types.Float32:
			return reflect.Float32
		case types.Float64:
			return reflect.Float64
		}
	case *types.Pointer:
		return reflect.Ptr
	case *types.Slice:
		return reflect.Slice
	case *types.Array:
		return reflect.Array
	case *types.Struct:
		return reflect.Struct
	case *types.Map:
		return reflect.Map
	case *types.Interface:
		return reflect.Interface
	case *types.Signature:
		return reflect.Func
	case *types.Chan:
		return reflect.Chan
	}
	panic(engineFault{"reflect kind of " + t.String()})
}

func init() {
	add := func(name string, f intrinsic) { reflectIntrinsics[name] = f }
	add("reflect.ValueOf", func(fr *frame, a []value) value {
		x := a[0].(iface)
		if x.t == nil {
			return structure{(*value)(nil), nil, uintptr(0)}
		}
		return mkRV(x.t, x.v, 0)
	})
	add("reflect.TypeOf", func(fr *frame, a []value) value {
		x := a[0].(iface)
		if x.t == nil {
			return iface{}
		}
		return fr.i.rtypeIface(x.t)
	})
	add("(reflect.Value).Elem", func(fr *frame, a []value) value {
		t, v := rvGet(a[0])
		switch u := t.Underlying().(type) {
		case *types.Pointer:
			p := v.(*value)
			if p == nil {
				return structure{(*value)(nil), nil, uintptr(0)}
			}
			return mkRV(u.Elem(), p, rvAddr)
		case *types.Interface:
			x := v.(iface)
			if x.t == nil {
				return structure{(*value)(nil), nil, uintptr(0)}
			}
			return mkRV(x.t, x.v, 0)
		}
		panic(engineFault{"reflect.Value.Elem of " + t.String()})
	})
	add("(reflect.Value).Addr", func(fr *frame, a []value) value {
		t, p := rvAddrOf(fr, a[0])
		return mkRV(types.NewPointer(t), p, 0)
	})
	add("(reflect.Value).Type", func(fr *frame, a []value) value {
		t, _, _ := rvParts(a[0])
		return fr.i.rtypeIface(t)
	})
	add("(reflect.Value).Kind", func(fr *frame, a []value) value {
		s := a[0].(structure)
		if _, ok := s[0].(rtype); !ok {
			return uint(reflect.Invalid)
		}
		t, _, _ := rvParts(a[0])
		return uint(goKind(t))
	})
	add("(reflect.Value).IsValid", func(fr *frame, a []value) value {
		_, ok := a[0].(structure)[0].(rtype)
		return ok
	})
	add("(reflect.Value).CanAddr", func(fr *frame, a []value) value {
		_, _, fl := rvParts(a[0])
		return fl&rvAddr != 0
	})
	add("(reflect.Value).CanSet", func(fr *frame, a []value) value {
		_, _, fl := rvParts(a[0])
		return fl&rvAddr != 0
	})
	add("(reflect.Value).Interface", func(fr *frame, a []value) value {
		t, v := rvGet(a[0])
		if _, isI := t.Underlying().(*types.Interface); isI {
			return v
		}
		return iface{t: t, v: v}
	})
	add("(reflect.Value).IsNil", func(fr *frame, a []value) value {
		_, v := rvGet(a[0])
		switch x := v.(type) {
		case *value:
			return x == nil
		case []value:
			return x == nil
		case iface:
			return x.t == nil
		case *symMap:
			return x == nil
		case *chanQ:
			return x == nil
		}
		panic(engineFault{fmt.Sprintf("reflect.Value.IsNil of %T", v)})
	})
	add("(reflect.Value).Set", func(fr *frame, a []value) value {
		t, p := rvAddrOf(fr, a[0])
		_, v := rvGet(a[1])
		store(t, p, v)
		return nil
	})
	setScalar := func(fr *frame, a []value) value {
		t, p := rvAddrOf(fr, a[0])
		x := a[1]
		// convert from the widest type to the destination kind
		if _, _, ok := intInfo(t); ok {
			var src types.Type = types.Typ[types.Uint64]
			if _, isI := x.(int64); isI {
				src = types.Typ[types.Int64]
			}
			if tm, isT := x.(*Term); isT && tm.sort == 64 {
				// signedness irrelevant for truncation
			}
			x = conv(fr, t, src, x)
		}
		store(t, p, x)
		return nil
	}
	add("(reflect.Value).SetUint", setScalar)
	add("(reflect.Value).SetInt", setScalar)
	add("(reflect.Value).SetBool", setScalar)
	add("(reflect.Value).SetString", setScalar)
	add("(reflect.Value).SetBytes", setScalar)
	add("(reflect.Value).Bytes", func(fr *frame, a []value) value {
		_, v := rvGet(a[0])
		return v
	})
	add("(reflect.Value).Len", func(fr *frame, a []value) value {
		t, v := rvGet(a[0])
		switch x := v.(type) {
		case []value:
			return len(x)
		case array:
			return len(x)
		case string:
			return len(x)
		case symStr:
			return len(x)
		}
		panic(engineFault{"reflect.Value.Len of " + t.String()})
	})
	add("(reflect.Value).Uint", func(fr *frame, a []value) value {
		t, v := rvGet(a[0])
		return conv(fr, types.Typ[types.Uint64], t, v)
	})
	add("(reflect.Value).Int", func(fr *frame, a []value) value {
		t, v := rvGet(a[0])
		return conv(fr, types.Typ[types.Int64], t, v)
	})
	add("(reflect.Value).Bool", func(fr *frame, a []value) value {
		_, v := rvGet(a[0])
		return v
	})
	add("(reflect.Value).String", func(fr *frame, a []value) value {
		_, v := rvGet(a[0])
		return v
	})
	add("(*reflect.rtype).Bits", func(fr *frame, a []value) value {
		w, _, ok := intInfo(a[0].(rtype).t)
		if !ok {
			rtPanic(fr.caller, "reflect: Bits of non-arithmetic Type")
		}
		return w
	})
	add("(*reflect.rtype).Kind", func(fr *frame, a []value) value { return uint(goKind(a[0].(rtype).t)) })
	add("(*reflect.rtype).String", func(fr *frame, a []value) value { return a[0].(rtype).t.String() })
	add("(*reflect.rtype).Name", func(fr *frame, a []value) value {
		if n, ok := a[0].(rtype).t.(*types.Named); ok {
			return n.Obj().Name()
		}
		return ""
	})
	add("(*reflect.rtype).Elem", func(fr *frame, a []value) value {
		switch u := a[0].(rtype).t.Underlying().(type) {
		case *types.Pointer:
			return fr.i.rtypeIface(u.Elem())
		case *types.Slice:
			return fr.i.rtypeIface(u.Elem())
		case *types.Array:
			return fr.i.rtypeIface(u.Elem())
		}
		panic(engineFault{"reflect Type.Elem"})
	})
}

var reflectIntrinsics = map[string]intrinsic{}
