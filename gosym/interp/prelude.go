package interp

// Engine side of the harness prelude (type VerifV in the harness package).

import (
	"crypto/sha256"
	"fmt"
	"go/types"
	"math/big"
	"strings"
)

type intrinsic func(fr *frame, args []value) value

var preludeTable map[string]intrinsic

func init() {
	preludeTable = map[string]intrinsic{
		"Bool":     func(fr *frame, a []value) value { return preFresh(fr, a, "bool", SortBool, types.Typ[types.Bool]) },
		"U8":       func(fr *frame, a []value) value { return preFresh(fr, a, "u8", 8, types.Typ[types.Uint8]) },
		"U16":      func(fr *frame, a []value) value { return preFresh(fr, a, "u16", 16, types.Typ[types.Uint16]) },
		"U32":      func(fr *frame, a []value) value { return preFresh(fr, a, "u32", 32, types.Typ[types.Uint32]) },
		"U64":      func(fr *frame, a []value) value { return preFresh(fr, a, "u64", 64, types.Typ[types.Uint64]) },
		"I32":      func(fr *frame, a []value) value { return preFresh(fr, a, "i32", 32, types.Typ[types.Int32]) },
		"I64":      func(fr *frame, a []value) value { return preFresh(fr, a, "i64", 64, types.Typ[types.Int64]) },
		"Int":      func(fr *frame, a []value) value { return preFresh(fr, a, "int", 64, types.Typ[types.Int]) },
		"Bytes":    preBytes,
		"Len":      preLen,
		"Choice":   preChoice,
		"Assume":   preAssume,
		"Assert":   preAssert,
		"Cover":    preCover,
		"Observe":  preObserve,
		"UF":       preUF,
		"Big":      preBig,
		"Param":    preParam,
		"Concrete": preConcrete,
		"Native":   func(fr *frame, a []value) value { return false },
		"Fail":     preFail,
		"Ite64":    preIte64,
		"IsSymbolic": func(fr *frame, a []value) value {
			_, s := a[1].(*Term)
			return s
		},
	}
}

func (fr *frame) concreteInput(kind string) (string, bool) {
	pc := fr.i.pc
	if fr.i.cfg.Concrete == nil {
		return "", false
	}
	k := len(pc.nondet)
	if k >= len(fr.i.cfg.Concrete) {
		panic(engineFault{"concrete replay: input vector exhausted"})
	}
	return fr.i.cfg.Concrete[k], true
}

func parseBig(s string) *big.Int {
	v := new(big.Int)
	if strings.HasPrefix(s, "0x") {
		v.SetString(s[2:], 16)
	} else {
		v.SetString(s, 10)
	}
	return v
}

func preFresh(fr *frame, a []value, kind string, srt int, t types.Type) value {
	pc := fr.i.pc
	name := a[1].(string)
	if s, ok := fr.concreteInput(kind); ok {
		v := parseBig(s)
		var tm *Term
		if srt == SortBool {
			tm = pc.st.Bool(v.Sign() != 0)
		} else {
			tm = pc.st.BV(v, srt)
		}
		pc.nondet = append(pc.nondet, NondetRec{Name: name, Kind: kind, Val: s})
		return lower(t, tm)
	}
	tm := pc.fresh(name, srt)
	pc.nondet = append(pc.nondet, NondetRec{Name: name, Kind: kind, Var: tm.name, t: tm})
	return tm
}

func preBytes(fr *frame, a []value) value {
	pc := fr.i.pc
	name := a[1].(string)
	n := int(fr.concreteInt(a[2], "Bytes length"))
	if s, ok := fr.concreteInput("bytes"); ok {
		out := make([]value, n)
		s = strings.TrimPrefix(s, "0x")
		for len(s) < 2*n {
			s = "0" + s
		}
		for i := 0; i < n; i++ {
			var b uint8
			fmt.Sscanf(s[2*i:2*i+2], "%02x", &b)
			out[i] = b
		}
		pc.nondet = append(pc.nondet, NondetRec{Name: name, Kind: "bytes", Val: "0x" + s})
		return out
	}
	out := make([]value, n)
	var cat *Term
	for i := 0; i < n; i++ {
		b := pc.fresh(fmt.Sprintf("%s_%d", name, i), 8)
		out[i] = b
		if cat == nil {
			cat = b
		} else {
			cat = pc.st.mk(&Term{op: OpConcat, sort: cat.sort + 8, args: []*Term{cat, b}})
		}
	}
	rec := NondetRec{Name: name, Kind: fmt.Sprintf("bytes%d", n), t: cat}
	if n == 0 {
		rec.Val = "0x"
	}
	pc.nondet = append(pc.nondet, rec)
	return out
}

func preLen(fr *frame, a []value) value {
	pc := fr.i.pc
	name := a[1].(string)
	lo := int(fr.concreteInt(a[2], "Len lo"))
	hi := int(fr.concreteInt(a[3], "Len hi"))
	if hi < lo {
		pc.prune("empty Len range")
	}
	var k int
	if s, ok := fr.concreteInput("len"); ok {
		k = int(parseBig(s).Int64()) - lo
	} else {
		k = pc.choose(hi - lo + 1)
	}
	pc.nondet = append(pc.nondet, NondetRec{Name: name, Kind: "len", Val: fmt.Sprint(lo + k)})
	return lo + k
}

func preChoice(fr *frame, a []value) value {
	pc := fr.i.pc
	name := a[1].(string)
	n := int(fr.concreteInt(a[2], "Choice n"))
	var k int
	if s, ok := fr.concreteInput("choice"); ok {
		k = int(parseBig(s).Int64())
	} else {
		k = pc.choose(n)
	}
	pc.nondet = append(pc.nondet, NondetRec{Name: name, Kind: "choice", Val: fmt.Sprint(k)})
	return k
}

func preAssume(fr *frame, a []value) value {
	pc := fr.i.pc
	switch c := a[1].(type) {
	case bool:
		if !c {
			pc.prune("assume false")
		}
	case *Term:
		pc.addConstraint(c)
	}
	return nil
}

func preAssert(fr *frame, a []value) value {
	pc := fr.i.pc
	label := a[2].(string)
	site := callerName(fr.caller)
	pc.assert(lift(pc.st, a[1]), label, site, fr.caller.stack())
	return nil
}

func preFail(fr *frame, a []value) value {
	pc := fr.i.pc
	pc.assert(pc.st.False(), a[1].(string), callerName(fr.caller), fr.caller.stack())
	return nil
}

func preCover(fr *frame, a []value) value {
	fr.i.pc.covers[a[1].(string)] = true
	return nil
}

func preObserve(fr *frame, a []value) value {
	pc := fr.i.pc
	name := a[1].(string)
	v := a[2].(iface)
	if fr.i.cfg.Concrete != nil {
		pc.observed = append(pc.observed, name+"="+renderValue(pc.st, &Model{}, v.v, 0))
	}
	return nil
}

func preParam(fr *frame, a []value) value {
	name := a[1].(string)
	v, ok := fr.i.cfg.Params[name]
	if !ok {
		panic(engineFault{"missing tier parameter " + name})
	}
	return v
}

func preConcrete(fr *frame, a []value) value {
	tm, ok := a[1].(*Term)
	if !ok {
		return a[1]
	}
	v := fr.i.pc.concretize(tm, fr.i.cfg.Lim.ConcretizeCap, "Concrete at "+callerName(fr.caller))
	return v.Uint64()
}

func preIte64(fr *frame, a []value) value {
	st := fr.st()
	return lower(types.Typ[types.Uint64], st.Ite(lift(st, a[1]), lift(st, a[2]), lift(st, a[3])))
}

func bytesTerm(st *TermStore, bs []value) *Term {
	var cat *Term
	for _, b := range bs {
		t := lift(st, b)
		if cat == nil {
			cat = t
		} else {
			cat = st.Concat(cat, t)
		}
	}
	return cat
}

// uf implements an uninterpreted function over byte strings.
func (pc *pathCtx) uf(name string, injective bool, outLen int, args [][]value) []value {
	st := pc.st
	call := ufCall{}
	for _, a := range args {
		call.args = append(call.args, bytesTerm(st, a))
		call.lens = append(call.lens, len(a))
	}
	prev := pc.ufCalls[name]
	type rel struct {
		eq *Term
		p  *ufCall
	}
	var rels []rel
	for k := range prev {
		p := &prev[k]
		if len(p.lens) != len(call.lens) {
			rels = append(rels, rel{st.False(), p})
			continue
		}
		eq := st.True()
		for j := range call.lens {
			if p.lens[j] != call.lens[j] {
				eq = st.False()
				break
			}
			if call.args[j] != nil {
				eq = st.And(eq, st.Eq(call.args[j], p.args[j]))
			}
		}
		if eq.isTrue() {
			return append([]value(nil), termsToVals(p.out)...)
		}
		rels = append(rels, rel{eq, p})
	}
	out := make([]*Term, outLen)
	allConc := true
	for _, a := range call.args {
		if a != nil && a.op != OpConst {
			allConc = false
		}
	}
	if allConc {
		// fully concrete arguments: a fixed pseudo-random value (SHA-256 derived), as a real
		// hash would give; calls with symbolic arguments are still related to it below.
		h := sha256.New()
		h.Write([]byte(name))
		for j, a := range call.args {
			fmt.Fprintf(h, "|%d:", call.lens[j])
			if a != nil {
				h.Write(a.val.Bytes())
			}
		}
		seed := h.Sum(nil)
		for i := range out {
			if i > 0 && i%32 == 0 {
				hh := sha256.Sum256(seed)
				seed = hh[:]
			}
			out[i] = st.BVu(uint64(seed[i%32]), 8)
		}
	} else {
		for i := range out {
			out[i] = pc.fresh(fmt.Sprintf("%s_o%d", name, i), 8)
		}
	}
	call.out = out
	pc.ufCalls[name] = append(prev, call)
	oT := bytesTerm(st, termsToVals(out))
	for _, r := range rels {
		if r.eq.isFalse() && !injective {
			continue
		}
		if len(r.p.out) != outLen {
			continue
		}
		pT := bytesTerm(st, termsToVals(r.p.out))
		same := st.Eq(oT, pT)
		pc.addConstraint(st.Implies(r.eq, same))
		if injective {
			pc.addConstraint(st.Implies(same, r.eq))
		}
	}
	return termsToVals(out)
}

func termsToVals(ts []*Term) []value {
	out := make([]value, len(ts))
	for i, t := range ts {
		if t.op == OpConst {
			out[i] = uint8(t.val.Uint64())
		} else {
			out[i] = t
		}
	}
	return out
}

func preUF(fr *frame, a []value) value {
	name := a[1].(string)
	inj := a[2].(bool)
	outLen := int(fr.concreteInt(a[3], "UF outLen"))
	var args [][]value
	for _, x := range a[4].([]value) {
		args = append(args, x.([]value))
	}
	if fr.i.cfg.Concrete != nil {
		// concrete mode: deterministic pseudo-hash so that equal inputs give equal outputs
		out := make([]value, outLen)
		h := uint64(1469598103934665603)
		for _, c := range name {
			h = (h ^ uint64(c)) * 1099511628211
		}
		for _, arg := range args {
			h = (h ^ uint64(len(arg)+0x100)) * 1099511628211
			for _, b := range arg {
				h = (h ^ uint64(b.(uint8))) * 1099511628211
			}
		}
		for i := range out {
			h = (h ^ uint64(i)) * 1099511628211
			out[i] = uint8(h >> 32)
		}
		return out
	}
	return fr.i.pc.uf(name, inj, outLen, args)
}

func preBig(fr *frame, a []value) value {
	pc := fr.i.pc
	name := a[1].(string)
	bits := int(fr.concreteInt(a[2], "Big bits"))
	p := newBigObj(fr)
	if s, ok := fr.concreteInput("big"); ok {
		pc.nondet = append(pc.nondet, NondetRec{Name: name, Kind: "big", Val: s})
		setBig(p, &bigPayload{c: parseBig(s)})
		return p
	}
	tm := pc.fresh(name, SortInt)
	pc.nondet = append(pc.nondet, NondetRec{Name: name, Kind: "big", Var: tm.name, t: tm})
	pc.addConstraint(pc.st.ILe(pc.st.IntC(new(big.Int)), tm))
	pc.addConstraint(pc.st.ILt(tm, pc.st.IntC(new(big.Int).Lsh(bigOne, uint(bits)))))
	setBig(p, &bigPayload{t: tm})
	return p
}
