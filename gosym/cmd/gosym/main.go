// gosym: bounded symbolic model checking of go-kardia harnesses (see /verif/DESIGN.md).
package main

import (
	"encoding/json"
	"flag"
	"fmt"
	"os"
	"os/exec"
	"path/filepath"
	"regexp"
	"runtime/pprof"
	"sort"
	"strings"
	"time"

	"gosym/interp"

	"golang.org/x/tools/go/packages"
	"golang.org/x/tools/go/ssa"
	"golang.org/x/tools/go/ssa/ssautil"
)

const repoMod = "github.com/kardiachain/go-kardia"

type TierSpec struct {
	Params   map[string]int `json:"params"`
	MaxPaths int            `json:"max_paths"`
	BudgetS  int            `json:"budget_s"`
	Skip     bool           `json:"skip"`
}

type HarnessSpec struct {
	Name         string              `json:"name"`
	Func         string              `json:"func"` // full name: <import path>.<Func>
	What         string              `json:"what"`
	Covers       []string            `json:"covers"`
	Tiers        map[string]TierSpec `json:"tiers"`
	Stubs        map[string]string   `json:"stubs"`
	ExpectPanics []string            `json:"expect_panics"`
	AllowGo      []string            `json:"allow_go"`
	MapOrders    bool                `json:"map_orders"`
	ConcretizeDivisors bool          `json:"concretize_divisors"`
	ConcretizeResults []string       `json:"concretize_results"`
	Limits       map[string]int      `json:"limits"`
	QueryMs      int                 `json:"query_timeout_ms"`
	Solver       string              `json:"solver"`
	AllowBlocked bool                `json:"allow_blocked"`
	NativeReplay string              `json:"native_replay"` // "" = yes, otherwise the reason it does not apply
	Assumptions  []string            `json:"assumptions"`
}

type Props struct {
	Property    string            `json:"property"`
	Packages    []string          `json:"packages"`
	HarnessDirs map[string]string `json:"harness_dirs"` // repo-relative package dir -> /verif-relative dir with harness files
	Init        []string          `json:"init"`
	Stubs       map[string]string `json:"stubs"`
	Harnesses   []HarnessSpec     `json:"harnesses"`
	Assumptions []string          `json:"assumptions"`
	Bounds      map[string]string `json:"bounds"`
	Outside     []string          `json:"outside_claim"`
	BuildTags   string            `json:"build_tags"`
	ConcretizeResults []string    `json:"concretize_results"`
}

type KnownFinding struct {
	Property string `json:"property"`
	Status   string `json:"status"` // "known" | "fixed"
	Harness  string `json:"harness"`
	Label    string `json:"label"`
	SiteRe   string `json:"site_re"`
	What     string `json:"what"`
	Commit   string `json:"commit,omitempty"`
}

var verifDir = "/verif"
var repoDir = "/repo"

func fatal(code int, format string, args ...interface{}) {
	fmt.Fprintf(os.Stderr, format+"\n", args...)
	os.Exit(code)
}

func preludeFor(pkgName string, native bool) []byte {
	name := "prelude_engine.go.txt"
	if native {
		name = "prelude_native.go.txt"
	}
	b, err := os.ReadFile(filepath.Join(verifDir, "harness", name))
	if err != nil {
		fatal(2, "INCONCLUSIVE: cannot read prelude: %v", err)
	}
	return []byte(strings.Replace(string(b), "package PKG", "package "+pkgName, 1))
}

// pkgNameOf reads the package clause of a Go package directory in the repo.
func pkgNameOf(dir string) string {
	ents, _ := os.ReadDir(dir)
	re := regexp.MustCompile(`(?m)^package\s+(\w+)`)
	for _, e := range ents {
		if strings.HasSuffix(e.Name(), ".go") && !strings.HasSuffix(e.Name(), "_test.go") {
			b, _ := os.ReadFile(filepath.Join(dir, e.Name()))
			if m := re.FindSubmatch(b); m != nil {
				return string(m[1])
			}
		}
	}
	return filepath.Base(dir)
}

// buildOverlay maps virtual files in the repo to harness sources.
func buildOverlay(p *Props, native bool) map[string][]byte {
	ov := make(map[string][]byte)
	for rel, hdir := range p.HarnessDirs {
		dst := filepath.Join(repoDir, rel)
		// several harness directories for one package are joined with '+'
		for _, one := range strings.Split(hdir, "+") {
			src := filepath.Join(verifDir, one)
			ents, err := os.ReadDir(src)
			if err != nil {
				fatal(2, "INCONCLUSIVE: harness dir %s: %v", src, err)
			}
			for _, e := range ents {
				if !strings.HasSuffix(e.Name(), ".go") {
					continue
				}
				b, _ := os.ReadFile(filepath.Join(src, e.Name()))
				ov[filepath.Join(dst, "zz_verif_"+e.Name())] = b
			}
		}
		ov[filepath.Join(dst, "zz_verif_prelude.go")] = preludeFor(pkgNameOf(dst), native)
	}
	return ov
}

func loadProgram(p *Props) (*ssa.Program, []*packages.Package, float64) {
	t0 := time.Now()
	cfg := &packages.Config{
		Mode: packages.NeedName | packages.NeedFiles | packages.NeedCompiledGoFiles | packages.NeedImports |
			packages.NeedDeps | packages.NeedTypes | packages.NeedSyntax | packages.NeedTypesInfo | packages.NeedTypesSizes,
		Dir:     repoDir,
		Overlay: buildOverlay(p, false),
		Env:     append(os.Environ(), "GOFLAGS=-mod=mod", "GOPROXY=off", "GOSUMDB=off", "GOTOOLCHAIN=local"),
	}
	if p.BuildTags != "" {
		cfg.BuildFlags = []string{"-tags=" + p.BuildTags}
	}
	pkgs, err := packages.Load(cfg, p.Packages...)
	if err != nil {
		fatal(2, "INCONCLUSIVE: packages.Load: %v", err)
	}
	nerr := 0
	packages.Visit(pkgs, nil, func(pk *packages.Package) {
		for _, e := range pk.Errors {
			if nerr < 20 {
				fmt.Fprintf(os.Stderr, "load error: %v\n", e)
			}
			nerr++
		}
	})
	if nerr > 0 {
		fatal(2, "INCONCLUSIVE: the harness no longer compiles against the tree (%d errors)", nerr)
	}
	prog, _ := ssautil.AllPackages(pkgs, ssa.InstantiateGenerics)
	prog.Build()
	return prog, pkgs, time.Since(t0).Seconds()
}

func findFunc(prog *ssa.Program, full string) *ssa.Function {
	k := strings.LastIndex(full, ".")
	pkg := prog.ImportedPackage(full[:k])
	if pkg == nil {
		return nil
	}
	return pkg.Func(full[k+1:])
}

func mergeStubs(a, b map[string]string) map[string]string {
	out := make(map[string]string)
	for k, v := range a {
		out[k] = v
	}
	for k, v := range b {
		if v == "real" { // a harness may run the real function where the property-level default stubs it
			delete(out, k)
			continue
		}
		out[k] = v
	}
	return out
}

func hasHarnessStub(m map[string]string) bool {
	for _, v := range m {
		if strings.HasPrefix(v, "harness:") {
			return true
		}
	}
	return false
}

var defaultInit = []string{"errors", "io", "time", "unicode/utf8", "unicode", "strconv", "bytes", "strings", "math", "sort", "encoding/binary", "io/fs", "context"}

func presentInit(prog *ssa.Program) []string {
	var out []string
	for _, p := range defaultInit {
		if prog.ImportedPackage(p) != nil {
			out = append(out, p)
		}
	}
	return out
}

type harnessOutcome struct {
	Spec    HarnessSpec
	Res     *interp.RunResult
	Missing []string // covers not reached
}

func main() {
	if len(os.Args) < 2 {
		fatal(2, "usage: gosym check <ID> <tier> [flags] | gosym replay <file>")
	}
	switch os.Args[1] {
	case "check":
		cmdCheck(os.Args[2:])
	case "replay":
		cmdReplay(os.Args[2:])
	case "smt":
		cmdSMT(os.Args[2:])
	default:
		fatal(2, "unknown command %s", os.Args[1])
	}
}

func cmdCheck(args []string) {
	fs := flag.NewFlagSet("check", flag.ExitOnError)
	only := fs.String("only", "", "run only harnesses whose name contains this")
	workers := fs.Int("workers", 16, "parallel workers")
	trace := fs.Bool("trace", false, "trace execution (1 worker)")
	noEvidence := fs.Bool("no-evidence", false, "do not write the evidence file")
	verbose := fs.Bool("v", false, "verbose")
	concrete := fs.String("concrete", "", "comma-separated concrete nondet vector (engine-concrete mode)")
	cpuprof := fs.String("cpuprofile", "", "write a CPU profile")
	maxPathsFlag := fs.Int("max-paths", 0, "override max paths (diagnostics; result is then partial)")
	if len(args) < 2 {
		fatal(2, "usage: gosym check <ID> <tier>")
	}
	id, tier := args[0], args[1]
	fs.Parse(args[2:])
	if v := os.Getenv("VERIF_DIR"); v != "" {
		verifDir = v
	}
	if v := os.Getenv("VERIF_REPO"); v != "" {
		repoDir = v
	}
	if *cpuprof != "" {
		f, _ := os.Create(*cpuprof)
		pprof.StartCPUProfile(f)
		defer pprof.StopCPUProfile()
	}
	t0 := time.Now()
	var props Props
	b, err := os.ReadFile(filepath.Join(verifDir, "props", id+".json"))
	if err != nil {
		fatal(2, "INCONCLUSIVE: %v", err)
	}
	if err := json.Unmarshal(b, &props); err != nil {
		fatal(2, "INCONCLUSIVE: props: %v", err)
	}
	seed := 0
	fmt.Sscan(os.Getenv("VERIF_SEED"), &seed)

	var outcomes []harnessOutcome
	var loadS float64
	var pureSMT []smtOutcome
	if len(props.Packages) > 0 {
		prog, _, ls := loadProgram(&props)
		loadS = ls
		for _, h := range props.Harnesses {
			if h.Func == "" {
				continue
			}
			if *only != "" && !strings.Contains(h.Name, *only) {
				continue
			}
			ts, ok := h.Tiers[tier]
			if !ok || ts.Skip {
				continue
			}
			fn := findFunc(prog, h.Func)
			if fn == nil {
				fatal(2, "INCONCLUSIVE: harness function %s not found", h.Func)
			}
			lim := interp.DefaultLimits()
			for k, v := range h.Limits {
				switch k {
				case "max_steps":
					lim.MaxSteps = v
				case "max_decisions":
					lim.MaxDecisions = v
				case "unwind":
					lim.Unwind = v
				case "max_depth":
					lim.MaxDepth = v
				case "alloc_cap":
					lim.AllocCap = v
				case "alloc_limit":
					lim.AllocLimit = int64(v)
				case "concretize_cap":
					lim.ConcretizeCap = v
				case "index_ite_cap":
					lim.IndexIteCap = v
				default:
					fatal(2, "INCONCLUSIVE: unknown limit %s", k)
				}
			}
			cfg := &interp.Config{
				Stubs:        mergeStubs(props.Stubs, h.Stubs),
				Init:         append(presentInit(prog), props.Init...),
				AllowGo:      h.AllowGo,
				ExpectPanics: h.ExpectPanics,
				MapOrders:    h.MapOrders,
				ConcretizeDivisors: h.ConcretizeDivisors,
				ConcretizeResults: append(append([]string{}, props.ConcretizeResults...), h.ConcretizeResults...),
				Params:       ts.Params,
				Lim:          lim,
				Trace:        *trace,
			}
			if *concrete != "" {
				cfg.Concrete = strings.Split(*concrete, ",")
			}
			maxPaths := ts.MaxPaths
			if maxPaths == 0 {
				maxPaths = 200000
				if tier == "thorough" {
					maxPaths = 3000000
				}
			}
			if *maxPathsFlag > 0 {
				maxPaths = *maxPathsFlag
			}
			budget := time.Duration(ts.BudgetS) * time.Second
			if ts.BudgetS == 0 {
				budget = 10 * time.Minute
			}
			qms := h.QueryMs
			if qms == 0 {
				qms = 20000
				if tier == "thorough" {
					qms = 120000
				}
			}
			w := *workers
			if *trace {
				w = 1
			}
			cross := 0
			if tier == "thorough" {
				cross = 20
			}
			res := interp.Explore(prog, cfg, fn, w, maxPaths, budget, qms, cross, h.Solver)
			ho := harnessOutcome{Spec: h, Res: res}
			for _, c := range h.Covers {
				if res.Covers[c] == 0 {
					ho.Missing = append(ho.Missing, c)
				}
			}
			outcomes = append(outcomes, ho)
			if *verbose {
				printOutcome(ho)
			}
		}
	}
	for _, h := range props.Harnesses {
		if h.Func != "" {
			continue
		}
		if *only != "" && !strings.Contains(h.Name, *only) {
			continue
		}
		ts, ok := h.Tiers[tier]
		if !ok || ts.Skip {
			continue
		}
		pureSMT = append(pureSMT, runSMTHarness(h, ts, tier))
	}
	pprof.StopCPUProfile()
	if mp := os.Getenv("GOSYM_MEMPROFILE"); mp != "" {
		f, _ := os.Create(mp)
		pprof.WriteHeapProfile(f)
		f.Close()
	}
	code := conclude(id, tier, seed, &props, outcomes, pureSMT, loadS, time.Since(t0).Seconds(), !*noEvidence, *only != "")
	os.Exit(code)
}

func printOutcome(ho harnessOutcome) {
	r := ho.Res
	fmt.Fprintf(os.Stderr, "== %s: paths=%d outcomes=%v decisions=%d steps=%d obligations=%d discharged=%d (trivial %d) wall=%.1fs\n",
		ho.Spec.Name, r.Paths, r.Outcomes, r.Decisions, r.Steps, r.Obligations, r.Discharged, r.Trivial, r.WallS)
	var cv []string
	for k, v := range r.Covers {
		cv = append(cv, fmt.Sprintf("%s:%d", k, v))
	}
	sort.Strings(cv)
	fmt.Fprintf(os.Stderr, "   covers: %s\n", strings.Join(cv, " "))
	if len(ho.Missing) > 0 {
		fmt.Fprintf(os.Stderr, "   MISSING covers: %v\n", ho.Missing)
	}
	for _, s := range r.Inconclusive {
		fmt.Fprintf(os.Stderr, "   inconclusive: %s\n", s)
	}
	for _, s := range r.Cuts {
		fmt.Fprintf(os.Stderr, "   cut: %s\n", s)
	}
	for k, s := range r.Poisoned {
		if os.Getenv("GOSYM_SHOW_POISON") == "" || k > 40 {
			break
		}
		if len(s) > 200 {
			s = s[:200]
		}
		fmt.Fprintf(os.Stderr, "   poisoned init: %s\n", s)
	}
	for _, g := range r.Failures {
		fmt.Fprintf(os.Stderr, "   FAIL %s [%s] at %s x%d %s\n", g.Label, g.Kind, g.Site, g.Count, g.Msg)
		for _, s := range g.Samples {
			var nd []string
			for _, n := range s.Nondet {
				nd = append(nd, n.Name+"="+n.Val)
			}
			fmt.Fprintf(os.Stderr, "      model: %s\n", strings.Join(nd, " "))
			for k, st := range s.Stack {
				if k < 8 {
					fmt.Fprintf(os.Stderr, "        at %s\n", st)
				}
			}
		}
	}
}

func loadKnown() []KnownFinding {
	var kf []KnownFinding
	b, err := os.ReadFile(filepath.Join(verifDir, "known_findings.json"))
	if err != nil {
		return nil
	}
	if err := json.Unmarshal(b, &kf); err != nil {
		fatal(2, "INCONCLUSIVE: known_findings.json: %v", err)
	}
	return kf
}

func matchKnown(kf []KnownFinding, id, harness string, g *interp.FailureGroup) *KnownFinding {
	for i := range kf {
		k := &kf[i]
		if k.Status != "known" || k.Property != id || k.Harness != harness || k.Label != g.Label {
			continue
		}
		if k.SiteRe != "" {
			if ok, _ := regexp.MatchString(k.SiteRe, g.Site+" "+g.Msg); !ok {
				continue
			}
		}
		return k
	}
	return nil
}

func conclude(id, tier string, seed int, props *Props, outs []harnessOutcome, smts []smtOutcome, loadS, wall float64, writeEv bool, partial bool) int {
	kf := loadKnown()
	violations := 0
	inconclusive := []string{}
	var lines []string
	knownSeen := map[string]bool{}
	os.MkdirAll(filepath.Join(verifDir, "evidence", "replays"), 0o755)
	type hv struct {
		Name         string                 `json:"harness"`
		What         string                 `json:"what,omitempty"`
		Func         string                 `json:"func,omitempty"`
		Params       map[string]int         `json:"bounds"`
		Paths        int                    `json:"paths"`
		Outcomes     map[string]int         `json:"outcomes"`
		Decisions    int                    `json:"solver_decided_branches"`
		Steps        int64                  `json:"ssa_steps"`
		Obligations  int                    `json:"obligations"`
		Discharged   int                    `json:"discharged"`
		Trivial      int                    `json:"discharged_by_simplifier"`
		Covers       map[string]int         `json:"covers"`
		Cuts         []string               `json:"cuts,omitempty"`
		Inconclusive []string               `json:"inconclusive,omitempty"`
		Failures     []*interp.FailureGroup `json:"failures,omitempty"`
		NFuncs       int                    `json:"functions_executed"`
		WallS        float64                `json:"wall_s"`
		Assumptions  []string               `json:"assumptions,omitempty"`
		Limits       map[string]int         `json:"limits,omitempty"`
	}
	var hvs []hv
	funcs := map[string]bool{}
	var samples []interface{}
	totPaths, totDec, totObl, totDis := 0, 0, 0, 0
	replayed := 0
	for _, ho := range outs {
		r := ho.Res
		h := hv{Name: ho.Spec.Name, What: ho.Spec.What, Func: ho.Spec.Func, Params: ho.Spec.Tiers[tier].Params, Paths: r.Paths, Outcomes: r.Outcomes,
			Decisions: r.Decisions, Steps: r.Steps, Obligations: r.Obligations, Discharged: r.Discharged, Trivial: r.Trivial,
			Covers: r.Covers, Cuts: r.Cuts, Inconclusive: r.Inconclusive, Failures: r.Failures, NFuncs: len(r.Funcs), WallS: r.WallS,
			Assumptions: ho.Spec.Assumptions, Limits: ho.Spec.Limits}
		hvs = append(hvs, h)
		totPaths += r.Paths
		totDec += r.Decisions
		totObl += r.Obligations
		totDis += r.Discharged
		for _, f := range r.Funcs {
			if strings.Contains(f, repoMod) && !strings.Contains(f, "Verif") && !strings.Contains(f, "verif") {
				funcs[f] = true
			}
		}
		for _, s := range r.Samples {
			if len(samples) < 6 {
				m := map[string]string{"harness": ho.Spec.Name}
				for _, n := range s {
					m[n.Name] = n.Val
				}
				samples = append(samples, m)
			}
		}
		for _, s := range r.Inconclusive {
			if ho.Spec.AllowBlocked && strings.HasPrefix(s, "blocked:") {
				continue
			}
			inconclusive = append(inconclusive, ho.Spec.Name+": "+s)
		}
		for _, c := range ho.Missing {
			inconclusive = append(inconclusive, ho.Spec.Name+": vacuity guard: cover '"+c+"' not reached")
		}
		for _, g := range r.Failures {
			if k := matchKnown(kf, id, ho.Spec.Name, g); k != nil {
				key := k.What // one line per finding, however many harnesses show it
				if !knownSeen[key] {
					knownSeen[key] = true
					lines = append(lines, fmt.Sprintf("KNOWN-FINDING: property=%s %s", id, k.What))
				}
				continue
			}
			// write replay artefact and try to reproduce natively
			path := filepath.Join(verifDir, "evidence", "replays", fmt.Sprintf("%s-%s-%s.json", id, ho.Spec.Name, sanitizeFile(g.Label)))
			art := map[string]interface{}{"property": id, "harness": ho.Spec.Name, "func": ho.Spec.Func, "tier": tier,
				"params": ho.Spec.Tiers[tier].Params, "label": g.Label, "kind": g.Kind, "site": g.Site, "msg": g.Msg, "count": g.Count}
			if len(g.Samples) > 0 {
				art["nondet"] = g.Samples[0].Nondet
				art["stack"] = g.Samples[0].Stack
			}
			status := "not-attempted"
			if g.Label == "alloc-bound" {
				// the bound on allocations is an obligation of the engine; a native run allocates silently
				status = "not-applicable: allocation bounds are checked by the engine only"
			} else if ho.Spec.NativeReplay == "" && len(g.Samples) > 0 {
				ok, out := nativeReplay(props, ho.Spec, tier, g)
				replayed++
				switch {
				case strings.Contains(out, "no native meaning") || strings.Contains(out, "engine only"):
					// the harness depends on a solver-only primitive (uninterpreted function, ghost
					// signature): the vector has no native counterpart
					status = "not-applicable: harness uses solver-only primitives (uninterpreted functions / ghost values)"
				case ok:
					status = "reproduced"
				case hasHarnessStub(mergeStubs(props.Stubs, ho.Spec.Stubs)):
					// the engine ran with functions replaced by name (hash, signature, recovery
					// models); the native build runs the real ones, so the vector need not carry over
					status = "not-applicable: the harness runs with by-name stubs, the native build with the real functions (native run did not fail)"
					art["native_output"] = out
				default:
					status = "not-reproduced"
					art["native_output"] = out
				}
			} else if ho.Spec.NativeReplay != "" {
				status = "not-applicable: " + ho.Spec.NativeReplay
			}
			art["native_replay"] = status
			ab, _ := json.MarshalIndent(art, "", " ")
			os.WriteFile(path, ab, 0o644)
			if status == "not-reproduced" {
				inconclusive = append(inconclusive, fmt.Sprintf("%s: counterexample for '%s' did not reproduce natively (engine/stub defect) — %s", ho.Spec.Name, g.Label, path))
				continue
			}
			violations++
			lines = append(lines, fmt.Sprintf("VIOLATION property=%s replay=%s", id, path))
			fmt.Fprintf(os.Stderr, "violation: %s / %s [%s] at %s (%d paths) %s — native replay: %s\n", ho.Spec.Name, g.Label, g.Kind, g.Site, g.Count, g.Msg, status)
		}
	}
	for _, so := range smts {
		totObl += so.Obligations
		totDis += so.Discharged
		for _, s := range so.Inconclusive {
			inconclusive = append(inconclusive, so.Name+": "+s)
		}
		for _, f := range so.Failed {
			violations++
			path := filepath.Join(verifDir, "evidence", "replays", fmt.Sprintf("%s-%s-%s.json", id, so.Name, sanitizeFile(f.Name)))
			ab, _ := json.MarshalIndent(f, "", " ")
			os.WriteFile(path, ab, 0o644)
			lines = append(lines, fmt.Sprintf("VIOLATION property=%s replay=%s", id, path))
		}
	}
	for _, l := range lines {
		fmt.Println(l)
	}
	for _, s := range inconclusive {
		fmt.Fprintf(os.Stderr, "INCONCLUSIVE: %s\n", s)
	}
	st := interp.GlobalSolverStats
	var fl []string
	for f := range funcs {
		fl = append(fl, f)
	}
	sort.Strings(fl)
	if len(samples) == 0 {
		samples = append(samples, map[string]string{"note": "no completed path produced a sample"})
	}
	cov := map[string]interface{}{
		"states":                        totPaths + sumStates(smts),
		"transitions":                   totDec + sumTrans(smts),
		"traces_validated_against_impl": replayed,
		"samples":                       samples,
		"obligations":                   totObl,
		"discharged":                    totDis,
		"evaluations":                   totPaths + len(smts),
		"distinct_nontrivial":           totPaths + len(smts),
		"rule":                          "one evaluation = one feasible symbolic path of a harness through the real SSA (each decided for all input values on that path by the solver), or one SMT obligation; all are distinct by construction (different decision prefixes)",
		"harnesses":                     hvs,
		"smt_harnesses":                 smts,
		"functions_encoded":             fl,
		"functions_encoded_count":       len(fl),
		"bounds":                        props.Bounds,
		"outside_claim":                 props.Outside,
		"solver": map[string]interface{}{"queries": st.Queries, "sat": st.Sat, "unsat": st.Unsat, "unknown": st.Unknown,
			"portfolio_fallbacks": st.Fallbacks, "z3_seconds": float64(st.NanosZ3) / 1e9, "other_seconds": float64(st.NanosOther) / 1e9,
			"errors": st.Errors, "cross_checked_agree": st.CrossOK, "cross_checked_disagree": st.CrossBad,
			"primary": "z3 4.8.12 (-in, push/pop)", "fallback": "cvc5 1.0 --solve-bv-as-int=sum, z3 5.1.0, cvc5 bit-blast (one-shot)"},
		"ssa_build_seconds": loadS,
		"inconclusive":      inconclusive,
		"exhaustive":        len(inconclusive) == 0,
		"explanation":       "bounded symbolic execution of the current /repo SSA; unsat on every path obligation = holds for all inputs within the stated bounds",
	}
	assumptions := []string{
		"go/ssa (x/tools v0.29.0) is a faithful IR of /repo's current source; the gosym executor implements Go semantics on it (cross-checked by native replay of every reported counterexample)",
		"z3 4.8.12 / cvc5 1.0 / z3 5.1.0 answers are sound; any (error, unknown or timeout is reported as inconclusive, never as success",
		"package initialisers outside the per-property whitelist are not executed; touching a global that has an initialiser there aborts the check as inconclusive",
		"sync primitives have single-thread semantics; goroutines are not run (go statements abort the check unless listed)",
	}
	assumptions = append(assumptions, props.Assumptions...)
	for _, ho := range outs {
		for _, a := range ho.Spec.Assumptions {
			assumptions = append(assumptions, ho.Spec.Name+": "+a)
		}
	}
	stubNames := []string{}
	for k, v := range props.Stubs {
		stubNames = append(stubNames, k+" => "+v)
	}
	sort.Strings(stubNames)
	cov["stubs"] = stubNames
	ev := map[string]interface{}{
		"property_id": id, "tier": tier, "seed": seed, "level": "model_checking",
		"coverage": cov, "assumptions": assumptions, "wall_s": wall, "violations": violations,
	}
	if writeEv && !partial {
		eb, _ := json.MarshalIndent(ev, "", " ")
		os.MkdirAll(filepath.Join(verifDir, "evidence"), 0o755)
		if err := os.WriteFile(filepath.Join(verifDir, "evidence", id+".json"), eb, 0o644); err != nil {
			fatal(2, "cannot write evidence: %v", err)
		}
	}
	fmt.Fprintf(os.Stderr, "%s %s: paths=%d obligations=%d discharged=%d violations=%d inconclusive=%d queries=%d wall=%.1fs\n",
		id, tier, totPaths, totObl, totDis, violations, len(inconclusive), st.Queries, wall)
	if violations > 0 {
		return 1
	}
	if len(inconclusive) > 0 {
		return 2
	}
	return 0
}

func sumStates(s []smtOutcome) int {
	n := 0
	for _, x := range s {
		n += x.Obligations
	}
	return n
}
func sumTrans(s []smtOutcome) int {
	n := 0
	for _, x := range s {
		n += x.Queries
	}
	return n
}

func sanitizeFile(s string) string {
	re := regexp.MustCompile(`[^A-Za-z0-9_.-]+`)
	s = re.ReplaceAllString(s, "_")
	if len(s) > 60 {
		s = s[:60]
	}
	return s
}

// nativeReplay runs the harness natively (go test -overlay) with the model's values.
func nativeReplay(props *Props, h HarnessSpec, tier string, g *interp.FailureGroup) (bool, string) {
	tmp, err := os.MkdirTemp("", "gosym-replay")
	if err != nil {
		return false, err.Error()
	}
	defer os.RemoveAll(tmp)
	k := strings.LastIndex(h.Func, ".")
	pkgPath, fnName := h.Func[:k], h.Func[k+1:]
	rel := strings.TrimPrefix(strings.TrimPrefix(pkgPath, repoMod), "/")
	ov := buildOverlay(props, true)
	// replay vector
	vec := map[string]interface{}{"nondet": g.Samples[0].Nondet, "params": h.Tiers[tier].Params}
	vb, _ := json.Marshal(vec)
	vecPath := filepath.Join(tmp, "vector.json")
	os.WriteFile(vecPath, vb, 0o644)
	testSrc := fmt.Sprintf(`package %s

import "testing"

func TestVerifReplay(t *testing.T) {
	v := verifNewReplay(%q)
	defer v.verifFinish(t)
	%s(v)
}
`, pkgNameOf(filepath.Join(repoDir, rel)), vecPath, fnName)
	ov[filepath.Join(repoDir, rel, "zz_verif_replay_test.go")] = []byte(testSrc)
	repl := map[string]string{}
	n := 0
	for virt, content := range ov {
		n++
		real := filepath.Join(tmp, fmt.Sprintf("f%d.go", n))
		os.WriteFile(real, content, 0o644)
		repl[virt] = real
	}
	ob, _ := json.Marshal(map[string]interface{}{"Replace": repl})
	ovPath := filepath.Join(tmp, "overlay.json")
	os.WriteFile(ovPath, ob, 0o644)
	cmd := exec.Command("go", "test", "-vet=off", "-count=1", "-overlay", ovPath, "-run", "^TestVerifReplay$", "-timeout", "300s", "./"+rel)
	cmd.Dir = repoDir
	cmd.Env = append(os.Environ(), "GOFLAGS=-mod=mod", "GOPROXY=off", "GOSUMDB=off", "GOTOOLCHAIN=local")
	out, _ := cmd.CombinedOutput()
	so := string(out)
	want := "VERIF-FAIL " + g.Label
	if g.Kind == "panic" {
		want = "VERIF-PANIC"
	}
	if strings.Contains(so, want) {
		return true, so
	}
	if len(so) > 3000 {
		so = so[len(so)-3000:]
	}
	return false, so
}

func cmdReplay(args []string) {
	if len(args) < 1 {
		fatal(2, "usage: gosym replay <artefact.json>")
	}
	b, err := os.ReadFile(args[0])
	if err != nil {
		fatal(2, "%v", err)
	}
	var art struct {
		Property string             `json:"property"`
		Harness  string             `json:"harness"`
		Tier     string             `json:"tier"`
		Label    string             `json:"label"`
		Kind     string             `json:"kind"`
		Nondet   []interp.NondetRec `json:"nondet"`
	}
	if err := json.Unmarshal(b, &art); err != nil {
		fatal(2, "%v", err)
	}
	var props Props
	pb, err := os.ReadFile(filepath.Join(verifDir, "props", art.Property+".json"))
	if err != nil {
		fatal(2, "%v", err)
	}
	json.Unmarshal(pb, &props)
	for _, h := range props.Harnesses {
		if h.Name == art.Harness {
			g := &interp.FailureGroup{Label: art.Label, Kind: art.Kind, Samples: []interp.Failure{{Nondet: art.Nondet}}}
			ok, out := nativeReplay(&props, h, art.Tier, g)
			fmt.Println(out)
			if ok {
				fmt.Println("REPRODUCED")
				os.Exit(1)
			}
			fmt.Println("not reproduced")
			os.Exit(0)
		}
	}
	fatal(2, "harness %s not found", art.Harness)
}
