package main

// Pure-SMT harnesses (no Go code involved): an external generator emits
// queries and expectations; each query is decided by the solver portfolio.

import (
	"bytes"
	"encoding/json"
	"fmt"
	"os"
	"os/exec"
	"path/filepath"
	"strings"
	"time"
)

type smtFailed struct {
	Name   string `json:"name"`
	Expect string `json:"expect"`
	Got    string `json:"got"`
	Model  string `json:"model,omitempty"`
	File   string `json:"file,omitempty"`
}

type smtOutcome struct {
	Name         string      `json:"harness"`
	What         string      `json:"what,omitempty"`
	Params       map[string]int `json:"bounds"`
	Obligations  int         `json:"obligations"`
	Discharged   int         `json:"discharged"`
	Queries      int         `json:"queries"`
	Failed       []smtFailed `json:"failed,omitempty"`
	Inconclusive []string    `json:"inconclusive,omitempty"`
	Details      []string    `json:"details,omitempty"`
	WallS        float64     `json:"wall_s"`
}

// An SMT harness is a generator script (HarnessSpec.Stubs["script"]) that, given
// the tier parameters as KEY=VALUE arguments, prints a JSON list of
// {"name":..., "expect":"unsat"|"sat", "smt2": "<script text ending in (check-sat)>"}.
func runSMTHarness(h HarnessSpec, ts TierSpec, tier string) smtOutcome {
	t0 := time.Now()
	out := smtOutcome{Name: h.Name, What: h.What, Params: ts.Params}
	script := h.Stubs["script"]
	if script == "" {
		out.Inconclusive = append(out.Inconclusive, "no generator script")
		return out
	}
	args := []string{filepath.Join(verifDir, script)}
	for k, v := range ts.Params {
		args = append(args, fmt.Sprintf("%s=%d", k, v))
	}
	cmd := exec.Command("python3", args...)
	var so, se bytes.Buffer
	cmd.Stdout, cmd.Stderr = &so, &se
	if err := cmd.Run(); err != nil {
		out.Inconclusive = append(out.Inconclusive, "generator failed: "+err.Error()+" "+se.String())
		return out
	}
	var qs []struct {
		Name   string `json:"name"`
		Expect string `json:"expect"`
		SMT2   string `json:"smt2"`
	}
	if err := json.Unmarshal(so.Bytes(), &qs); err != nil {
		out.Inconclusive = append(out.Inconclusive, "generator output: "+err.Error())
		return out
	}
	timeout := ts.BudgetS
	if timeout == 0 {
		timeout = 120
	}
	type res struct {
		i   int
		got string
		by  string
		sec float64
	}
	ch := make(chan res, len(qs))
	sem := make(chan struct{}, 8)
	for i, q := range qs {
		go func(i int, smt2 string) {
			sem <- struct{}{}
			defer func() { <-sem }()
			t := time.Now()
			got, by := portfolio(smt2, timeout)
			ch <- res{i, got, by, time.Since(t).Seconds()}
		}(i, q.SMT2)
	}
	for range qs {
		r := <-ch
		q := qs[r.i]
		out.Queries++
		out.Obligations++
		out.Details = append(out.Details, fmt.Sprintf("%s: expect %s got %s by %s in %.1fs", q.Name, q.Expect, r.got, r.by, r.sec))
		switch {
		case r.got == q.Expect:
			out.Discharged++
		case r.got == "unknown":
			out.Inconclusive = append(out.Inconclusive, q.Name+": solver unknown/timeout")
		default:
			f := smtFailed{Name: q.Name, Expect: q.Expect, Got: r.got}
			p := filepath.Join(verifDir, "evidence", "replays", sanitizeFile(h.Name+"-"+q.Name)+".smt2")
			os.MkdirAll(filepath.Dir(p), 0o755)
			os.WriteFile(p, []byte(q.SMT2), 0o644)
			f.File = p
			out.Failed = append(out.Failed, f)
		}
	}
	out.WallS = time.Since(t0).Seconds()
	return out
}

// portfolio runs the script on z3, z3-new and cvc5 concurrently and returns the first decided answer.
func portfolio(smt2 string, timeoutS int) (string, string) {
	type cand struct {
		name string
		args []string
		pre  string
	}
	cands := []cand{
		{"z3", []string{"-in", "-smt2", fmt.Sprintf("-T:%d", timeoutS)}, ""},
		{"z3-new", []string{"-in", "-smt2", fmt.Sprintf("-T:%d", timeoutS)}, ""},
		{"cvc5", []string{"--lang=smt2", fmt.Sprintf("--tlimit=%d", timeoutS*1000)}, ""},
	}
	type r struct{ got, by string }
	ch := make(chan r, len(cands))
	var cmds []*exec.Cmd
	for _, c := range cands {
		cmd := exec.Command(c.name, c.args...)
		cmd.Stdin = strings.NewReader(c.pre + smt2)
		cmds = append(cmds, cmd)
		go func(c cand, cmd *exec.Cmd) {
			var o bytes.Buffer
			cmd.Stdout, cmd.Stderr = &o, &o
			cmd.Run()
			s := o.String()
			if strings.Contains(s, "(error") {
				ch <- r{"unknown", c.name}
				return
			}
			for _, l := range strings.Split(s, "\n") {
				l = strings.TrimSpace(l)
				if l == "sat" || l == "unsat" {
					ch <- r{l, c.name}
					return
				}
			}
			ch <- r{"unknown", c.name}
		}(c, cmd)
	}
	got, by := "unknown", ""
	for range cands {
		x := <-ch
		if x.got != "unknown" {
			got, by = x.got, x.by
			break
		}
	}
	for _, c := range cmds {
		if c.Process != nil {
			c.Process.Kill()
		}
	}
	return got, by
}

func cmdSMT(args []string) {
	b, _ := os.ReadFile(args[0])
	got, by := portfolio(string(b), 60)
	fmt.Println(got, by)
}
