#!/usr/bin/env python3
# prints the harness catalogue (as built) from props/*.json as a markdown table
import json,glob,os
print("| id | harness | decides | quick params | thorough params | solver |")
print("|---|---|---|---|---|---|")
for p in sorted(glob.glob('/verif/props/C*.json')):
    d=json.load(open(p))
    for h in d['harnesses']:
        q=h['tiers'].get('quick',{}); t=h['tiers'].get('thorough',{})
        def fmt(x):
            if x.get('skip'): return 'skipped'
            s=' '.join('%s=%s'%kv for kv in x.get('params',{}).items())
            return s or '-'
        what=h.get('what','').replace('|','/')
        print("| %s | %s | %s | %s | %s | %s |"%(d['property'],h['name'],what,fmt(q),fmt(t),h.get('solver','z3')+(' (pure SMT)' if not h.get('func') else '')))
