#!/bin/bash
# run every registered check of a tier sequentially; print exit code and wall time per property
tier=${1:-quick}; shift
cd /verif
ids=${@:-$(python3 -c "import json;print(' '.join(c['property_id'] for c in json.load(open('MANIFEST.json'))['checks']))")}
for id in $ids; do
  t0=$(date +%s)
  out=$(./check $id $tier 2>&1); rc=$?
  t1=$(date +%s)
  echo "$id $tier exit=$rc $((t1-t0))s $(echo "$out" | grep -c VIOLATION) violations $(echo "$out" | grep -c KNOWN-FINDING) known"
  [ $rc -ne 0 ] && echo "$out" | head -5
done
