#!/usr/bin/env python3
# Regenerates DESIGN.md section 9 from design_asbuilt_head.md, claims.json, props/*.json,
# design_asbuilt_tail.md and seeded/MATRIX.md. Sections 0-8 and the appendices are left untouched.
import json,subprocess,re,os
V='/verif'
claims=json.load(open(V+'/tools/claims.json'))
out=[open(V+'/tools/design_asbuilt_head.md').read()]
for pid in sorted(claims):
    c=claims[pid]
    if not c.get('claimed'):
        continue
    d=json.load(open(V+'/props/%s.json'%pid))
    out.append("#### %s\n"%pid)
    out.append(c['level_text']+"\n")
    out.append("*Limits of the claim.* "+c['level_note']+"\n")
    if d.get('bounds'):
        out.append("*Bounds.* "+"; ".join("%s: %s"%kv for kv in d['bounds'].items())+"\n")
    if d.get('assumptions'):
        out.append("*Assumptions.* "+"; ".join(d['assumptions'])+"\n")
    if d.get('outside_claim'):
        out.append("*Outside.* "+"; ".join(d['outside_claim'])+"\n")
out.append("### 9.3.1 Harness catalogue (generated from props/*.json)\n")
out.append(subprocess.check_output(['python3',V+'/tools/harness_table.py']).decode())
out.append(open(V+'/tools/design_asbuilt_tail.md').read())
if os.path.exists(V+'/seeded/MATRIX.md'):
    out.append(open(V+'/seeded/MATRIX.md').read())
sec="\n".join(out)
s=open(V+'/DESIGN.md').read()
i=s.find('## 9. As built')
if i>=0:
    j=s.find('\n## Appendix A')
    s=s[:i]+sec+"\n"+s[j+1:]
else:
    j=s.find('## Appendix A')
    s=s[:j]+sec+"\n"+s[j:]
open(V+'/DESIGN.md','w').write(s)
print("DESIGN.md section 9 regenerated (%d lines)"%sec.count('\n'))
