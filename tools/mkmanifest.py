#!/usr/bin/env python3
"""Regenerates /verif/MANIFEST.json from props/*.json and tools/claims.json."""
import json, os, glob
V = '/verif'
props = [json.loads(l) for l in open(f'{V}/properties.jsonl')]
claims = json.load(open(f'{V}/tools/claims.json'))
checks, na = [], []
for p in props:
    pid = p['id']
    c = claims.get(pid, {})
    if c.get('claimed') and os.path.exists(f'{V}/props/{pid}.json'):
        checks.append({
            "property_id": pid,
            "quick_cmd": f"./check {pid} quick",
            "thorough_cmd": f"./check {pid} thorough",
            "evidence_file": f"/verif/evidence/{pid}.json",
            "replay_cmd_template": f"./check {pid} --replay {{path}}",
            "engine": "gosym",
            "level_claimed": {"category": "model_checking", "text": c['level_text'], "design_ref": c.get('design_ref', f"DESIGN.md §3 {pid}")},
            "level_note": c['level_note'],
            "technique": c.get('technique', "bounded symbolic execution of the real go/ssa code (gosym) + SMT (z3/cvc5): solver-decided for all inputs within bounds"),
        })
    else:
        na.append({"property_id": pid, "reason": c.get('na_reason', "check not built yet (build in progress)")})
m = {
    "version": 1,
    "setup_cmd": "cd /verif/gosym && GOFLAGS=-mod=mod GOPROXY=off GOSUMDB=off GOTOOLCHAIN=local go build -o /verif/bin/gosym ./cmd/gosym",
    "hooks": {"guard": "verif",
              "enable": "none needed: harnesses are injected as virtual in-package files with go/packages Overlay (engine) and go test -overlay (native replay); /repo carries no hook commits",
              "baseline_off_cmd": "for m in $(cat /w/out/gomods.txt); do MF=$(cd /repo/$m && . /w/out/goenv.sh && gomodflag); (cd /repo/$m && go test $MF -json -vet=off -count=1 -timeout 25m ./...); done",
              "source_commits": [], "add_only": True},
    "engines": [{"name": "gosym", "path": "/verif/gosym", "serves_properties": [c['property_id'] for c in checks],
                 "kind_free_text": "symbolic executor for Go written for this task: fork of x/tools go/ssa/interp with SMT terms as scalar values, concolic path exploration by re-execution, z3/cvc5 back ends, native counterexample replay via go test -overlay"}],
    "checks": checks,
    "notes": "All claims are bounded (bounds, stubs and what lies outside are listed in evidence/<id>.json and DESIGN.md). exit 0 = held on everything explored; exit 1 + VIOLATION line = replayed counterexample; exit 2 = inconclusive (never success).",
    "not_applicable": na,
}
json.dump(m, open(f'{V}/MANIFEST.json', 'w'), indent=1)
print(len(checks), "checks,", len(na), "not applicable")
