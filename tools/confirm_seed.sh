#!/bin/bash
# usage: confirm_seed.sh <seed-dir-with-out/> <worktree> <pkgdir (repo-relative) for demo> <test pkgs...>
# Confirms: demo passes on clean tree, fails with patch; existing tests of the given packages unchanged.
export GOFLAGS=-mod=mod GOPROXY=off GOSUMDB=off GOTOOLCHAIN=local
out="$1/out"; wt="$2"; pkg="$3"; shift 3; pkgs="$@"
cd "$wt" || exit 2
git checkout -q -- . ; git clean -fdq
demo=$(ls $out/zz_seed_demo_test.go 2>/dev/null | head -1)
cp "$demo" "$pkg/zz_seed_demo_test.go"
run=$(grep -o 'func Test[A-Za-z0-9_]*' "$demo" | sed 's/func //' | paste -sd'|')
echo "== demo on clean tree"; go test -vet=off -count=1 -run "^($run)\$" ./$pkg/ 2>&1 | grep -v conda | tail -3 > /tmp/cs.$$.clean; cat /tmp/cs.$$.clean
rm "$pkg/zz_seed_demo_test.go"
echo "== baseline tests"; go test -vet=off -count=1 $pkgs 2>&1 | grep -v conda | grep -E "^(ok|FAIL|---|panic)" | sed -E 's/\(?[0-9.]+s\)?$//' | sort > /tmp/cs.$$.base
git apply "$out/patch.diff" || { echo "PATCH DOES NOT APPLY"; exit 2; }
echo "== patched tests"; go test -vet=off -count=1 $pkgs 2>&1 | grep -v conda | grep -E "^(ok|FAIL|---|panic)" | sed -E 's/\(?[0-9.]+s\)?$//' | sort > /tmp/cs.$$.pat
if diff /tmp/cs.$$.base /tmp/cs.$$.pat >/dev/null; then echo "existing tests: UNCHANGED"; else echo "existing tests: DIFFER"; diff /tmp/cs.$$.base /tmp/cs.$$.pat | head; fi
cp "$demo" "$pkg/zz_seed_demo_test.go"
echo "== demo with patch"; go test -vet=off -count=1 -run "^($run)\$" ./$pkg/ 2>&1 | grep -v conda | tail -3 > /tmp/cs.$$.p; cat /tmp/cs.$$.p
git checkout -q -- . ; git clean -fdq
if grep -q "^ok" /tmp/cs.$$.clean && grep -q "FAIL" /tmp/cs.$$.p; then echo "CONFIRMED"; else echo "NOT CONFIRMED"; fi
rm -f /tmp/cs.$$.*
