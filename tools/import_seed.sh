#!/bin/bash
# usage: import_seed2.sh <ID> <demo pkgdir> "<change>" "<needs>" <test pkgs...>
# confirms the round-2 seed in its scratch worktree, stores it under /verif/seeded/<ID>-agent2, removes the worktree
id=$1; pkg=$2; change=$3; needs=$4; shift 4
src=${SEEDROOT:-/tmp/seed2}/$id; dst=/verif/seeded/$id-${SUFFIX:-agent2}
mkdir -p $dst
/verif/tools/confirm_seed.sh $src $src/wt $pkg "$@" > $dst/confirm.log 2>&1
tail -1 $dst/confirm.log
grep -q "^CONFIRMED" $dst/confirm.log || { echo "not confirmed; see $dst/confirm.log"; exit 1; }
grep -q "existing tests: UNCHANGED" $dst/confirm.log || { echo "existing tests differ"; exit 1; }
cp $src/out/patch.diff $dst/patch.diff; cp $src/out/zz_seed_demo_test.go $dst/; cp $src/out/notes.md $dst/agent_notes.md
python3 - "$dst/meta.json" "$id" "$pkg" "$change" "$needs" <<'PY'
import json,sys
p,pid,pkg,change,needs=sys.argv[1:6]
json.dump({"property":pid,"source":"independent sub-agent (round "+__import__("os").environ.get("ROUND","2")+") given only the property text, the location of the round-1 seed to avoid, and a scratch worktree","change":change,"needs_to_manifest":needs,"demo":"zz_seed_demo_test.go (package dir %s)"%pkg,"confirmed_by":"tools/confirm_seed.sh in the agent's scratch worktree at /repo HEAD: demo passes on the clean tree, fails with patch.diff; pass/fail sets of the listed packages identical with and without the patch (see confirm.log)","detected_by":None},open(p,'w'),indent=1)
PY
git -C /repo worktree remove --force $src/wt && echo "worktree removed"
