package kvm

import (
	"github.com/holiman/uint256"
)

// VerifC10_K3jump: validJumpdest against the reference definition: the destination is valid
// iff it is (as a full 256-bit number) the position of a JUMPDEST byte that is not inside
// the immediate data of a PUSH.
func VerifC10_K3jump(v *VerifV) {
	n := v.Len("code-len", 0, v.Param("L"))
	code := v.Bytes("code", n)
	var dest uint256.Int
	dest[0], dest[1], dest[2], dest[3] = v.U64("d0"), v.U64("d1"), v.U64("d2"), v.U64("d3")
	c := &Contract{Code: code}
	got := c.validJumpdest(&dest)
	// reference: one pass over the code
	want := false
	i := 0
	for i < n {
		op := code[i]
		if op >= byte(PUSH1) && op <= byte(PUSH32) {
			i += int(op-byte(PUSH1)) + 2
			v.Cover("push")
			continue
		}
		if op == byte(JUMPDEST) && dest[1] == 0 && dest[2] == 0 && dest[3] == 0 && dest[0] == uint64(i) {
			want = true
		}
		i++
	}
	if got {
		v.Cover("valid")
	}
	if dest[1]|dest[2]|dest[3] != 0 {
		v.Cover("beyond-64-bits")
	}
	v.Assert(got == want, "C10.jumpdest.differs-from-reference")
}

// VerifC10_K3gas: gas arithmetic kernels over full uint64: no wrap-around is ever returned as a
// valid result.
func VerifC10_K3gas(v *VerifV) {
	// toWordSize: ceil(size/32) for every size
	size := v.U64("size")
	w := toWordSize(size)
	v.Assert(w == size/32+v.Ite64(size%32 != 0, 1, 0), "C10.gas.toWordSize")
	// calcMemSize64WithUint: overflow flag exactly when offset+length does not fit
	var off uint256.Int
	off[0], off[1] = v.U64("off0"), v.U64("off1")
	length := v.U64("len")
	ms, ovf := calcMemSize64WithUint(&off, length)
	if length == 0 {
		v.Assert(!ovf && ms == 0, "C10.gas.memsize-zero-length")
	} else {
		fits := off[1] == 0 && off[0] <= ^uint64(0)-length
		v.Assert(ovf == !fits, "C10.gas.memsize-overflow-flag")
		if !ovf {
			v.Assert(ms == off[0]+length, "C10.gas.memsize-value")
		}
		v.Cover("memsize")
	}
	// memoryGasCost: either an overflow error or a fee that did not wrap
	mem := NewMemory()
	nm := v.U64("newmem")
	fee, err := memoryGasCost(mem, nm)
	if err == nil && nm != 0 {
		words := (nm + 31) / 32
		v.Assert(nm <= 0x1FFFFFFFE0, "C10.gas.memory-cost-accepted-above-limit")
		v.Assert(fee == words*3+words*words/512, "C10.gas.memory-cost-value")
		v.Assert(words <= 0xFFFFFFFF, "C10.gas.memory-cost-square-wraps")
		v.Cover("memcost")
	}
	// callGas: never more than all-but-one-64th of what is available
	avail, base := v.U64("avail"), v.U64("base")
	v.Assume(base <= avail)
	var cost uint256.Int
	cost[0], cost[1] = v.U64("cost0"), v.U64("cost1")
	g, cerr := callGas(avail, base, &cost)
	v.Assert(cerr == nil, "C10.gas.callgas-error")
	rest := avail - base
	v.Assert(g <= rest-rest/64, "C10.gas.callgas-above-63-64ths")
	if cost[1] == 0 && cost[0] <= rest-rest/64 {
		v.Assert(g == cost[0], "C10.gas.callgas-requested-amount")
	}
}
