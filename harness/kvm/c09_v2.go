package kvm

import (
	"math/big"

	cmn "github.com/kardiachain/go-kardia/lib/common"
)

func verifMkKVM(v *VerifV, st *VerifState) *KVM {
	VerifRunV = v
	VerifRunCalls = 0
	k := &KVM{StateDB: st}
	k.BlockContext = BlockContext{CanTransfer: VerifCanTransfer, Transfer: VerifTransfer, BlockHeight: big.NewInt(1)}
	k.interpreter = NewInterpreter(k, Config{JumpTable: v1InstructionSet})
	return k
}

var verifCaller, verifCallee = cmn.Address{0xA1}, cmn.Address{0xB2}

// VerifC09_V2call: one CALL frame with arbitrary balances, value and gas, the code below it
// arbitrary: value is conserved; a failed or reverted frame leaves no state change; leftover
// gas never exceeds the gas given; unaffordable value is refused without any change.
func VerifC09_V2call(v *VerifV) {
	st := VerifNewState()
	st.Put(verifCaller, v.Big("caller-balance", 80), 3, nil)
	switch v.Choice("callee", 3) {
	case 0: // does not exist
		v.Cover("callee-missing")
	case 1: // plain account
		st.Put(verifCallee, v.Big("callee-balance", 80), 0, nil)
	case 2: // contract
		st.Put(verifCallee, v.Big("callee-balance", 80), 1, []byte{0x60, 0x00})
		v.Cover("callee-contract")
	}
	k := verifMkKVM(v, st)
	if v.Choice("deep", 2) == 1 {
		k.depth = 1025
	}
	value := v.Big("value", 80)
	gas := v.U64("gas")
	before := st.Total()
	snap := st.copyAccts()
	_, left, err := k.Call(AccountRef(verifCaller), verifCallee, nil, gas, value)
	v.Assert(left <= gas, "C09.call.leftover-gas-above-gas-given")
	v.Assert(st.Total().Cmp(before) == 0, "C09.call.value-not-conserved")
	if err != nil {
		v.Cover("failed")
		if err != ErrExecutionReverted {
			v.Assert(left == 0 || err == ErrDepth || err == ErrInsufficientBalance, "C09.call.gas-kept-after-failure")
		}
		for a, x := range snap {
			y := st.Accts[a]
			v.Assert(y != nil && y.Balance.Cmp(x.Balance) == 0 && y.Nonce == x.Nonce && y.Exists == x.Exists, "C09.call.failed-frame-left-state-change")
		}
		for _, a := range st.Order {
			if _, ok := snap[a]; !ok {
				if y, present := st.Accts[a]; present {
					v.Assert(!y.Exists && y.Balance.Sign() == 0, "C09.call.failed-frame-left-state-change")
				}
			}
		}
	} else {
		v.Cover("succeeded")
		if VerifRunCalls == 0 && value.Sign() > 0 {
			// plain transfer: exactly the value moved
			v.Assert(st.GetBalance(verifCaller).Cmp(new(big.Int).Sub(snap[verifCaller].Balance, value)) == 0, "C09.call.sender-not-debited-by-value")
		}
	}
	if value.Sign() > 0 && snap[verifCaller].Balance.Cmp(value) < 0 {
		v.Assert(err != nil, "C09.call.unaffordable-value-transferred")
		v.Cover("unaffordable")
	}
	v.Assert(st.GetBalance(verifCaller).Sign() >= 0, "C09.call.negative-balance")
}

// VerifC09_V2create: one CREATE frame: value conserved, creator nonce +1 exactly, a failed
// creation leaves nothing but the nonce bump, code-store gas charged, leftover gas bounded.
func VerifC09_V2create(v *VerifV) {
	st := VerifNewState()
	st.Put(verifCaller, v.Big("caller-balance", 80), 5, nil)
	newAddr := cmn.Address{0xCC}
	if v.Choice("collision", 2) == 1 {
		st.Put(newAddr, new(big.Int), 1, nil)
		v.Cover("collision")
	}
	k := verifMkKVM(v, st)
	value := v.Big("value", 80)
	gas := v.U64("gas")
	before := st.Total()
	affordable := st.GetBalance(verifCaller).Cmp(value) >= 0
	code := &codeAndHash{code: []byte{0x60, 0x00}}
	_, _, left, err := k.create(AccountRef(verifCaller), code, gas, value, newAddr, CREATE)
	v.Assert(left <= gas, "C09.create.leftover-gas-above-gas-given")
	v.Assert(st.Total().Cmp(before) == 0, "C09.create.value-not-conserved")
	if !affordable {
		v.Assert(err != nil && st.GetNonce(verifCaller) == 5, "C09.create.unaffordable-value")
		v.Cover("unaffordable")
		return
	}
	v.Assert(st.GetNonce(verifCaller) == 6, "C09.create.creator-nonce-not-bumped-once")
	if err != nil {
		v.Cover("failed")
		v.Assert(len(st.GetCode(newAddr)) == 0 || st.GetNonce(newAddr) == 1, "C09.create.failed-creation-left-code")
	} else {
		v.Cover("created")
		v.Assert(st.GetNonce(newAddr) == 1, "C09.create.new-contract-nonce")
		v.Assert(st.GetBalance(newAddr).Cmp(value) >= 0 || VerifRunCalls > 0, "C09.create.value-not-received")
	}
}
