package kvm

import (
	"math/big"

	cmn "github.com/kardiachain/go-kardia/lib/common"
)

// ---- K4: state-changing instructions fail inside a static call, whatever calls come before ------

var (
	verifOuter = cmn.Address{0xD1}
	verifMid   = cmn.Address{0xD2}
	verifLeaf  = cmn.Address{0xD3}
	verifLeaf2 = cmn.Address{0xD4}
)

func verifPush20(a cmn.Address) []byte { return append([]byte{byte(PUSH20)}, a[:]...) }

// code for a message call of the given kind to `to` with 50000 gas and no data; the result is popped
func verifCallCode(op OpCode, to cmn.Address, value byte) []byte {
	c := []byte{byte(PUSH1), 0, byte(PUSH1), 0, byte(PUSH1), 0, byte(PUSH1), 0}
	if op == CALL || op == CALLCODE {
		c = append(c, byte(PUSH1), value)
	}
	c = append(c, verifPush20(to)...)
	c = append(c, byte(PUSH2), 0xC3, 0x50, byte(op), byte(POP))
	return c
}

// VerifC10_K4: a frame that runs in static mode (entered through STATICCALL, directly or below a
// chain of further calls) executes an arbitrary prefix of message calls that return (STATICCALL,
// CALL without value, DELEGATECALL, CALLCODE to a callee that stops, reverts, fails or itself
// makes a nested static call) and then one state-changing instruction (SSTORE, LOG0..LOG4,
// CREATE, CREATE2, SELFDESTRUCT, CALL with value). The frame must fail with ErrWriteProtection
// and nothing must have been written: storage, logs, accounts, balances, nonces are as before.
// Both instruction sets.
func VerifC10_K4(v *VerifV) {
	st := VerifNewState()
	st.Put(cmn.Address{0xA1}, big.NewInt(1000), 1, nil)
	// the write attempted in static mode
	var write []byte
	wk := v.Choice("write", 10)
	switch wk {
	case 0:
		write = []byte{byte(PUSH1), v.U8("sstore-value"), byte(PUSH1), v.U8("sstore-key"), byte(SSTORE)}
	case 1, 2, 3, 4, 5:
		n := wk - 1 // LOG0..LOG4
		for i := 0; i < n+2; i++ {
			write = append(write, byte(PUSH1), 0)
		}
		write = append(write, byte(LOG0)+byte(n))
	case 6:
		write = []byte{byte(PUSH1), 0, byte(PUSH1), 0, byte(PUSH1), 0, byte(CREATE)}
	case 7:
		write = []byte{byte(PUSH1), 0, byte(PUSH1), 0, byte(PUSH1), 0, byte(PUSH1), 0, byte(CREATE2)}
	case 8:
		write = []byte{byte(PUSH1), 0, byte(SELFDESTRUCT)}
	case 9:
		val := v.U8("call-value")
		v.Assume(val != 0)
		write = verifCallCode(CALL, verifLeaf, val) // CALL with a non-zero value
	}
	write = append(write, byte(STOP))
	// what the static frame does before the write
	var prefix []byte
	nPre := v.Choice("calls-before", 3)
	ops := []OpCode{STATICCALL, CALL, DELEGATECALL, CALLCODE}
	for i := 0; i < nPre; i++ {
		prefix = append(prefix, verifCallCode(ops[v.Choice("call-kind", len(ops))], verifLeaf, 0)...)
	}
	if nPre > 0 {
		v.Cover("calls-before-write")
	}
	// the callee of those calls
	var leaf []byte
	switch v.Choice("callee", 4) {
	case 0:
		leaf = []byte{byte(STOP)}
	case 1:
		leaf = []byte{byte(PUSH1), 0, byte(PUSH1), 0, byte(REVERT)}
	case 2:
		leaf = []byte{byte(INVALID)}
	case 3:
		leaf = append(verifCallCode(STATICCALL, verifLeaf2, 0), byte(STOP))
		v.Cover("nested-static-call")
	}
	st.Put(verifLeaf, big.NewInt(5), 1, leaf)
	st.Put(verifLeaf2, big.NewInt(0), 1, []byte{byte(STOP)})
	static := append(append([]byte(nil), prefix...), write...)
	table := v1InstructionSet
	if v.Choice("instruction-set", 2) == 1 {
		table = v2InstructionSet
	}
	k := &KVM{StateDB: st}
	k.BlockContext = BlockContext{CanTransfer: VerifCanTransfer, Transfer: VerifTransfer, BlockHeight: big.NewInt(1)}
	k.interpreter = NewInterpreter(k, Config{JumpTable: table})

	depthKind := v.Choice("entered", 2)
	var err error
	if depthKind == 0 {
		// the static frame is entered directly by STATICCALL from the outside
		st.Put(verifMid, big.NewInt(7), 1, static)
		before := st.copyAccts()
		_, _, err = k.StaticCall(AccountRef(cmn.Address{0xA1}), verifMid, nil, 1000000)
		v.Assert(err == ErrWriteProtection, "C10.static.write-did-not-fail-with-write-protection")
		verifUnchanged(v, st, before)
	} else {
		// an ordinary frame STATICCALLs the frame under test and stores the call's result flag
		st.Put(verifMid, big.NewInt(7), 1, static)
		outer := []byte{byte(PUSH1), 0, byte(PUSH1), 0, byte(PUSH1), 0, byte(PUSH1), 0}
		outer = append(outer, verifPush20(verifMid)...)
		outer = append(outer, byte(PUSH3), 0x07, 0xA1, 0x20, byte(STATICCALL), byte(PUSH1), 9, byte(SSTORE), byte(STOP))
		st.Put(verifOuter, big.NewInt(3), 1, outer)
		before := st.copyAccts()
		_, _, err = k.Call(AccountRef(cmn.Address{0xA1}), verifOuter, nil, 2000000, new(big.Int))
		v.Assert(err == nil, "C10.static.outer-frame-failed")
		// the outer frame recorded the inner call's failure (0) in its slot 9 - its only write
		flag := st.GetState(verifOuter, cmn.Hash{31: 9})
		v.Assert(flag == cmn.Hash{}, "C10.static.write-in-static-frame-succeeded")
		delete(st.Accts[verifOuter].Storage, cmn.Hash{31: 9})
		verifUnchanged(v, st, before)
		v.Cover("below-ordinary-frame")
	}
	v.Assert(st.Logs == 0, "C10.static.log-emitted")
	v.Assert(!k.interpreter.readOnly, "C10.static.read-only-mode-leaked")
}

func verifUnchanged(v *VerifV, st *VerifState, before map[cmn.Address]*VerifAcct) {
	for a, x := range before {
		y := st.Accts[a]
		v.Assert(y != nil && y.Balance.Cmp(x.Balance) == 0 && y.Nonce == x.Nonce && y.Exists == x.Exists && !y.Suicided, "C10.static.account-changed")
		if y != nil {
			v.Assert(len(y.Storage) == len(x.Storage), "C10.static.storage-written")
			for k, val := range y.Storage {
				v.Assert(val == x.Storage[k] || val == (cmn.Hash{}), "C10.static.storage-written")
			}
		}
	}
	for _, a := range st.Order {
		if _, ok := before[a]; !ok {
			if y, present := st.Accts[a]; present {
				v.Assert(!y.Exists && len(y.Code) == 0, "C10.static.account-created")
			}
		}
	}
}
