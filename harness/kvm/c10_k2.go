package kvm

import (
	"hash"
	"math/big"

	"github.com/kardiachain/go-kardia/configs"
	cmn "github.com/kardiachain/go-kardia/lib/common"
)

func verifGetHash(n uint64) cmn.Hash { return cmn.Hash{0x48, byte(n)} }

// VerifC10_K2: step safety for every opcode value 0x00..0xff: the instruction is executed by the
// real Interpreter.Run on a stack of 0 or 7 items whose top three are each 0, 33,
// 2^64-1 or 2^256-1 (the boundaries of the offset/size/gas arithmetic), on small memory, a
// model state and a real KVM context. Whatever the opcode and operands: no Go panic (implicit
// obligation), the outcome is a result or an error value, gas does not increase.
func VerifC10_K2(v *VerifV) {
	op := byte(v.Choice("opcode", 256))
	depth := []int{0, 7}[v.Choice("stack-depth", 2)]
	var code []byte
	for i := 0; i < depth; i++ {
		cls := 0
		if i >= depth-3 {
			cls = v.Choice("operand-class", 4)
		}
		switch cls {
		case 0:
			code = append(code, byte(PUSH1), 0)
		case 3:
			code = append(code, byte(PUSH1), 33)
		case 1:
			code = append(code, byte(PUSH8), 0xff, 0xff, 0xff, 0xff, 0xff, 0xff, 0xff, 0xff)
		case 2:
			code = append(code, byte(PUSH32))
			for k := 0; k < 32; k++ {
				code = append(code, 0xff)
			}
		}
	}
	code = append(code, op, byte(STOP))
	table := v1InstructionSet
	if v.Choice("instruction-set", 2) == 1 {
		table = v2InstructionSet
	}
	st := VerifNewState()
	self, caller := cmn.Address{0xD1}, cmn.Address{0xA1}
	st.Put(self, big.NewInt(1000), 1, code)
	st.Put(caller, big.NewInt(1000), 1, nil)
	k := NewKVM(BlockContext{CanTransfer: VerifCanTransfer, Transfer: VerifTransfer, GetHash: verifGetHash, Coinbase: cmn.Address{0xC0},
		GasLimit: 10000000, BlockHeight: big.NewInt(100), Time: big.NewInt(1600000000)},
		TxContext{Origin: caller, GasPrice: big.NewInt(1)}, st, &configs.ChainConfig{ChainID: big.NewInt(24)}, Config{JumpTable: table})
	contract := NewContract(AccountRef(caller), AccountRef(self), big.NewInt(0), 200000)
	contract.Code = code
	contract.Input = []byte{1, 2, 3}
	_, err := k.interpreter.Run(contract, contract.Input, false)
	v.Assert(contract.Gas <= 200000, "C10.step.gas-increased")
	if err == nil {
		v.Cover("completed")
	} else {
		v.Cover("error-value")
	}
	if table[op] == nil {
		v.Assert(err != nil, "C10.step.undefined-opcode-executed")
		v.Cover("undefined-opcode")
	}
}

// Keccak model for the SHA3 instruction: a fixed pseudo-random function of the bytes written
// (the digest value is not the subject of step safety).
type verifKeccakState struct{ buf []byte }

func (k *verifKeccakState) Write(p []byte) (int, error) { k.buf = append(k.buf, p...); return len(p), nil }
func (k *verifKeccakState) Sum(b []byte) []byte          { return append(b, k.digest()...) }
func (k *verifKeccakState) Reset()                       { k.buf = nil }
func (k *verifKeccakState) Size() int                    { return 32 }
func (k *verifKeccakState) BlockSize() int               { return 136 }
func (k *verifKeccakState) Read(out []byte) (int, error) { return copy(out, k.digest()), nil }
func (k *verifKeccakState) digest() []byte {
	d := make([]byte, 32)
	for i, b := range k.buf {
		d[i%32] ^= b + byte(i)
	}
	d[31] ^= byte(len(k.buf))
	return d
}

func verifStubNewKeccakK2() hash.Hash { return &verifKeccakState{} }

func verifStubKeccak256K2(data ...[]byte) []byte {
	k := &verifKeccakState{}
	for _, d := range data {
		k.buf = append(k.buf, d...)
	}
	return k.digest()
}
func verifStubCreateAddress2(b cmn.Address, salt [32]byte, inithash []byte) cmn.Address {
	return cmn.Address{0xCD, salt[31]}
}
