package kvm

import (
	"math/big"

	cmn "github.com/kardiachain/go-kardia/lib/common"
	"github.com/kardiachain/go-kardia/types"
)

// VerifState: a small model of the world state implementing kvm.StateDB (C08 is what justifies
// using a model below the call/transition layer): balances are mathematical integers, snapshot
// and revert by copy.
type VerifAcct struct {
	Exists   bool
	Balance  *big.Int
	Nonce    uint64
	Code     []byte
	CodeHash cmn.Hash
	Suicided bool
	Storage  map[cmn.Hash]cmn.Hash
}

type VerifState struct {
	Accts  map[cmn.Address]*VerifAcct
	Order  []cmn.Address
	Refund uint64
	Logs   int
	snaps  []map[cmn.Address]*VerifAcct
	snapRefund []uint64
}

func VerifNewState() *VerifState { return &VerifState{Accts: make(map[cmn.Address]*VerifAcct)} }

func (s *VerifState) acct(a cmn.Address) *VerifAcct {
	x, ok := s.Accts[a]
	if !ok {
		x = &VerifAcct{Balance: new(big.Int), Storage: make(map[cmn.Hash]cmn.Hash)}
		s.Accts[a] = x
		s.Order = append(s.Order, a)
	}
	return x
}
func (s *VerifState) Put(a cmn.Address, bal *big.Int, nonce uint64, code []byte) {
	x := s.acct(a)
	x.Exists, x.Balance, x.Nonce, x.Code = true, bal, nonce, code
	if len(code) > 0 {
		x.CodeHash = cmn.Hash{0xC0, byte(len(code))}
	}
}
func (s *VerifState) Total() *big.Int {
	t := new(big.Int)
	for _, a := range s.Order {
		if x, ok := s.Accts[a]; ok {
			t.Add(t, x.Balance)
		}
	}
	return t
}
func (s *VerifState) copyAccts() map[cmn.Address]*VerifAcct {
	m := make(map[cmn.Address]*VerifAcct)
	for _, a := range s.Order {
		x, ok := s.Accts[a]
		if !ok {
			continue
		}
		c := *x
		c.Balance = new(big.Int).Set(x.Balance)
		c.Storage = make(map[cmn.Hash]cmn.Hash)
		for k, v := range x.Storage {
			c.Storage[k] = v
		}
		m[a] = &c
	}
	return m
}

func (s *VerifState) CreateAccount(a cmn.Address) {
	x := s.acct(a)
	// balance is carried over, as in the real state
	x.Exists, x.Nonce, x.Code, x.CodeHash, x.Suicided = true, 0, nil, cmn.Hash{}, false
	x.Storage = make(map[cmn.Hash]cmn.Hash)
}
func (s *VerifState) AddBalance(a cmn.Address, v *big.Int) {
	x := s.acct(a)
	x.Exists = true
	x.Balance = new(big.Int).Add(x.Balance, v)
}
func (s *VerifState) SubBalance(a cmn.Address, v *big.Int) {
	x := s.acct(a)
	x.Balance = new(big.Int).Sub(x.Balance, v)
}
func (s *VerifState) GetBalance(a cmn.Address) *big.Int {
	if x, ok := s.Accts[a]; ok {
		return x.Balance
	}
	return new(big.Int)
}
func (s *VerifState) GetCodeHash(a cmn.Address) cmn.Hash {
	if x, ok := s.Accts[a]; ok && x.Exists {
		if len(x.Code) == 0 {
			return emptyCodeHash
		}
		return x.CodeHash
	}
	return cmn.Hash{}
}
func (s *VerifState) GetCode(a cmn.Address) []byte {
	if x, ok := s.Accts[a]; ok {
		return x.Code
	}
	return nil
}
func (s *VerifState) SetCode(a cmn.Address, c []byte) {
	x := s.acct(a)
	x.Code = c
	x.CodeHash = cmn.Hash{0xC0, byte(len(c))}
}
func (s *VerifState) GetCodeSize(a cmn.Address) int { return len(s.GetCode(a)) }
func (s *VerifState) GetState(a cmn.Address, k cmn.Hash) cmn.Hash {
	if x, ok := s.Accts[a]; ok {
		return x.Storage[k]
	}
	return cmn.Hash{}
}
func (s *VerifState) SetState(a cmn.Address, k, v cmn.Hash) { s.acct(a).Storage[k] = v }
func (s *VerifState) GetNonce(a cmn.Address) uint64 {
	if x, ok := s.Accts[a]; ok {
		return x.Nonce
	}
	return 0
}
func (s *VerifState) SetNonce(a cmn.Address, n uint64) { x := s.acct(a); x.Exists = true; x.Nonce = n }
func (s *VerifState) AddRefund(g uint64)                { s.Refund += g }
func (s *VerifState) SubRefund(g uint64)                { s.Refund -= g }
func (s *VerifState) GetRefund() uint64                 { return s.Refund }
func (s *VerifState) Suicide(a cmn.Address) bool {
	x, ok := s.Accts[a]
	if !ok || !x.Exists {
		return false
	}
	x.Suicided = true
	x.Balance = new(big.Int)
	return true
}
func (s *VerifState) HasSuicided(a cmn.Address) bool {
	x, ok := s.Accts[a]
	return ok && x.Suicided
}
func (s *VerifState) RevertToSnapshot(id int) {
	s.Accts = s.snaps[id]
	s.Refund = s.snapRefund[id]
	s.snaps = s.snaps[:id]
	s.snapRefund = s.snapRefund[:id]
}
func (s *VerifState) Snapshot() int {
	s.snaps = append(s.snaps, s.copyAccts())
	s.snapRefund = append(s.snapRefund, s.Refund)
	return len(s.snaps) - 1
}
func (s *VerifState) Exist(a cmn.Address) bool {
	x, ok := s.Accts[a]
	return ok && x.Exists
}
func (s *VerifState) Empty(a cmn.Address) bool {
	x, ok := s.Accts[a]
	return !ok || !x.Exists || (x.Nonce == 0 && x.Balance.Sign() == 0 && len(x.Code) == 0)
}
func (s *VerifState) AddLog(*types.Log)               { s.Logs++ }
func (s *VerifState) AddPreimage(cmn.Hash, []byte)    {}

// the transfer functions of mainchain/kvm (which cannot be imported from here): same two lines
func VerifCanTransfer(db StateDB, addr cmn.Address, amount *big.Int) bool {
	return db.GetBalance(addr).Cmp(amount) >= 0
}
func VerifTransfer(db StateDB, sender, recipient cmn.Address, amount *big.Int) {
	db.SubBalance(sender, amount)
	db.AddBalance(recipient, amount)
}

// ---- the interpreter below the call frame is arbitrary but value conserving

// VerifNondet: the part of the prelude the run stub needs (any package's VerifV satisfies it).
type VerifNondet interface {
	U64(name string) uint64
	Assume(c bool)
	Choice(name string, n int) int
	Big(name string, bits int) *big.Int
	Bytes(name string, n int) []byte
	Len(name string, lo, hi int) int
}

var VerifRunV VerifNondet
var VerifRunCalls int

// Stub for (*Interpreter).Run: arbitrary result and gas use; may move value out of the
// running contract (an inner CALL with value) - anything it does conserves the total.
func verifStubRun(in *Interpreter, contract *Contract, input []byte, readOnly bool) ([]byte, error) {
	v := VerifRunV
	VerifRunCalls++
	used := v.U64("gas-used")
	v.Assume(used <= contract.Gas)
	contract.Gas -= used
	st := in.kvm.StateDB
	if v.Choice("inner-transfer", 2) == 1 {
		amt := v.Big("inner-amount", 64)
		self := contract.Address()
		v.Assume(st.GetBalance(self).Cmp(amt) >= 0)
		VerifTransfer(st, self, cmn.Address{0xEE}, amt)
	}
	switch v.Choice("outcome", 3) {
	case 1:
		return nil, ErrExecutionReverted
	case 2:
		return nil, ErrOutOfGas
	}
	return v.Bytes("ret", v.Len("ret-len", 0, 2)), nil
}

// Stub for crypto.Keccak256Hash where only a distinct constant is needed (emptyCodeHash).
func verifStubKeccakHash(data ...[]byte) cmn.Hash {
	h := cmn.Hash{0x4B}
	n := 0
	for _, d := range data {
		for _, b := range d {
			h[1+n%31] ^= b + byte(n)
			n++
		}
	}
	h[31] = byte(n)
	return h
}

// Stub for crypto.CreateAddress (RLP + Keccak of creator and nonce): a fixed fresh address.
func verifStubCreateAddress(b cmn.Address, nonce uint64) cmn.Address { return cmn.Address{0xCC} }
