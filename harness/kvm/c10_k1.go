package kvm

import (
	"math/big"

	cmn "github.com/kardiachain/go-kardia/lib/common"
)

type verifU256 [4]uint64 // little-endian limbs

func verifWord(b []byte) verifU256 { // 32 big-endian bytes
	var w verifU256
	for l := 0; l < 4; l++ {
		var x uint64
		for k := 0; k < 8; k++ {
			x = x<<8 | uint64(b[(3-l)*8+k])
		}
		w[l] = x
	}
	return w
}

func verifB2U(v *VerifV, c bool) uint64 { return v.Ite64(c, 1, 0) }

// schoolbook reference semantics (Yellow Paper), written on 64-bit limbs with explicit carries
func verifRefAdd(v *VerifV, a, b verifU256) verifU256 {
	var r verifU256
	carry := uint64(0)
	for i := 0; i < 4; i++ {
		s := a[i] + b[i]
		c1 := verifB2U(v, s < a[i])
		s2 := s + carry
		c2 := verifB2U(v, s2 < s)
		r[i] = s2
		carry = c1 | c2
	}
	return r
}
func verifRefSub(v *VerifV, a, b verifU256) verifU256 {
	var r verifU256
	borrow := uint64(0)
	for i := 0; i < 4; i++ {
		d := a[i] - b[i]
		b1 := verifB2U(v, a[i] < b[i])
		d2 := d - borrow
		b2 := verifB2U(v, d < borrow)
		r[i] = d2
		borrow = b1 | b2
	}
	return r
}
func verifRefLt(v *VerifV, a, b verifU256) bool { // unsigned a < b
	lt := false
	for i := 0; i < 4; i++ { // from least significant: a later (more significant) limb overrides
		if a[i] != b[i] {
			lt = a[i] < b[i]
		}
	}
	return lt
}
func verifBoolWord(c bool) verifU256 {
	if c {
		return verifU256{1, 0, 0, 0}
	}
	return verifU256{}
}

// VerifC10_K1: one two-operand instruction executed by the real Interpreter.Run (real jump
// table, stack, uint256 limb code, memory, RETURN) on symbolic operands, compared with the
// reference semantics. Program: PUSH32 b ; PUSH32 a ; OP ; PUSH1 0 ; MSTORE ; PUSH1 32 ; PUSH1 0 ; RETURN
func VerifC10_K1(v *VerifV) {
	ops := []OpCode{ADD, SUB, LT, GT, EQ, AND, OR, XOR, ISZERO, NOT, SLT, SGT}
	op := ops[v.Choice("op", len(ops))]
	table := v1InstructionSet
	if v.Choice("instruction-set", 2) == 1 {
		table = v2InstructionSet
		v.Cover("galaxias")
	}
	ab, bb := v.Bytes("a", 32), v.Bytes("b", 32)
	a, b := verifWord(ab), verifWord(bb)
	code := []byte{byte(PUSH32)}
	code = append(code, bb...)
	code = append(code, byte(PUSH32))
	code = append(code, ab...)
	code = append(code, byte(op), byte(PUSH1), 0, byte(MSTORE), byte(PUSH1), 32, byte(PUSH1), 0, byte(RETURN))
	kvm := &KVM{}
	kvm.interpreter = NewInterpreter(kvm, Config{JumpTable: table})
	contract := NewContract(AccountRef(cmn.Address{1}), AccountRef(cmn.Address{2}), new(big.Int), 100000)
	contract.Code = code
	ret, err := kvm.interpreter.Run(contract, nil, false)
	v.Assert(err == nil, "C10.op.unexpected-error")
	v.Assert(len(ret) == 32, "C10.op.return-length")
	if err != nil || len(ret) != 32 {
		return
	}
	got := verifWord(ret)
	var want verifU256
	switch op {
	case ADD:
		want = verifRefAdd(v, a, b)
	case SUB:
		want = verifRefSub(v, a, b)
	case LT:
		want = verifBoolWord(verifRefLt(v, a, b))
	case GT:
		want = verifBoolWord(verifRefLt(v, b, a))
	case SLT, SGT:
		x, y := a, b
		if op == SGT {
			x, y = b, a
		}
		sx, sy := x[3]>>63 == 1, y[3]>>63 == 1
		var lt bool
		if sx != sy {
			lt = sx // negative < non-negative
		} else {
			lt = verifRefLt(v, x, y)
		}
		want = verifBoolWord(lt)
	case EQ:
		want = verifBoolWord(a[0] == b[0] && a[1] == b[1] && a[2] == b[2] && a[3] == b[3])
	case AND:
		want = verifU256{a[0] & b[0], a[1] & b[1], a[2] & b[2], a[3] & b[3]}
	case OR:
		want = verifU256{a[0] | b[0], a[1] | b[1], a[2] | b[2], a[3] | b[3]}
	case XOR:
		want = verifU256{a[0] ^ b[0], a[1] ^ b[1], a[2] ^ b[2], a[3] ^ b[3]}
	case ISZERO:
		want = verifBoolWord(a[0]|a[1]|a[2]|a[3] == 0)
	case NOT:
		want = verifU256{^a[0], ^a[1], ^a[2], ^a[3]}
	}
	for i := 0; i < 4; i++ {
		v.Assert(got[i] == want[i], "C10.op.result-differs-from-reference")
	}
	v.Assert(contract.Gas <= 100000, "C10.op.gas-increased")
	v.Cover("executed")
}
