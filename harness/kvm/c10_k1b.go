package kvm

import (
	"math/big"

	cmn "github.com/kardiachain/go-kardia/lib/common"
)

// ---- K1b: shifts, byte access, sign extension, stack, memory, call data, control flow ------------
//
// Same scheme as K1: a short program around one instruction, executed by the real
// Interpreter.Run, result returned through memory, compared with reference semantics written on
// big-endian byte arrays (Yellow Paper), operands symbolic.

type verifW [32]byte

func verifWFrom(b []byte) verifW {
	var w verifW
	copy(w[32-len(b):], b)
	return w
}

func verifWSmall(x int) verifW {
	var w verifW
	w[31], w[30], w[29] = byte(x), byte(x>>8), byte(x>>16)
	return w
}

// logical shifts by a concrete amount
func verifRefShl(x verifW, s int) verifW {
	var r verifW
	if s >= 256 {
		return r
	}
	q, k := s/8, uint(s%8)
	for i := 0; i < 32; i++ {
		j := i + q
		if j < 32 {
			r[i] = x[j] << k
			if k > 0 && j+1 < 32 {
				r[i] |= x[j+1] >> (8 - k)
			}
		}
	}
	return r
}
func verifRefShr(x verifW, s int, fill byte) verifW {
	var r verifW
	for i := range r {
		r[i] = fill
	}
	if s >= 256 {
		return r
	}
	q, k := s/8, uint(s%8)
	for i := 31; i >= 0; i-- {
		j := i - q
		if j >= 0 {
			r[i] = x[j] >> k
			if k > 0 {
				hi := fill
				if j-1 >= 0 {
					hi = x[j-1]
				}
				r[i] |= hi << (8 - k)
			}
		}
	}
	return r
}

func verifPushW(code []byte, w []byte) []byte {
	code = append(code, byte(PUSH1)+byte(len(w)-1))
	return append(code, w...)
}

var verifRetTop = []byte{byte(PUSH1), 0x80, byte(MSTORE), byte(PUSH1), 32, byte(PUSH1), 0x80, byte(RETURN)}

func verifRunCode(v *VerifV, code, input []byte) ([]byte, error) {
	table := v1InstructionSet
	if v.Choice("instruction-set", 2) == 1 {
		table = v2InstructionSet
	}
	kvm := &KVM{}
	kvm.interpreter = NewInterpreter(kvm, Config{JumpTable: table})
	contract := NewContract(AccountRef(cmn.Address{1}), AccountRef(cmn.Address{2}), new(big.Int), 1000000)
	contract.Code = code
	return kvm.interpreter.Run(contract, input, false)
}

func verifExpect(v *VerifV, ret []byte, err error, want verifW) {
	v.Assert(err == nil, "C10.op.unexpected-error")
	v.Assert(len(ret) == 32, "C10.op.return-length")
	if err != nil || len(ret) != 32 {
		return
	}
	var diff byte
	for i := 0; i < 32; i++ {
		diff |= ret[i] ^ want[i]
	}
	v.Assert(diff == 0, "C10.op.result-differs-from-reference")
	v.Cover("executed")
}

func VerifC10_K1b(v *VerifV) {
	xb := v.Bytes("x", 32)
	x := verifWFrom(xb)
	switch v.Choice("class", 7) {
	case 0: // SHL / SHR / SAR by a concrete amount (incl. >= 256 and amounts that do not fit 64 bits)
		amounts := []int{0, 1, 7, 8, 9, 63, 64, 65, 127, 128, 248, 255, 256, 257, 65536}
		s := amounts[v.Choice("shift", len(amounts))]
		sw := verifWSmall(s)
		huge := v.Choice("huge-shift", 2) == 1
		if huge {
			sw[7] = v.U8("high-byte")
			v.Assume(sw[7] != 0)
			s = 1 << 20
		}
		op := []OpCode{SHL, SHR, SAR}[v.Choice("op", 3)]
		code := verifPushW(nil, xb)
		code = verifPushW(code, sw[:])
		code = append(code, byte(op))
		ret, err := verifRunCode(v, append(code, verifRetTop...), nil)
		var want verifW
		switch op {
		case SHL:
			want = verifRefShl(x, s)
		case SHR:
			want = verifRefShr(x, s, 0)
		case SAR:
			// the fill byte is 0xff iff the sign bit of x is set
			fill := byte(0) - (x[0] >> 7)
			want = verifRefShr(x, s, fill)
		}
		verifExpect(v, ret, err, want)
		v.Cover("shift")
	case 1: // BYTE(i, x)
		idx := []int{0, 1, 15, 16, 30, 31, 32, 33, 255, 256}[v.Choice("index", 10)]
		iw := verifWSmall(idx)
		if v.Choice("huge-index", 2) == 1 {
			iw[3] = v.U8("high-byte")
			v.Assume(iw[3] != 0)
			idx = 1 << 20
		}
		code := verifPushW(nil, xb)
		code = verifPushW(code, iw[:])
		code = append(code, byte(BYTE))
		ret, err := verifRunCode(v, append(code, verifRetTop...), nil)
		var want verifW
		if idx < 32 {
			want[31] = x[idx]
		}
		verifExpect(v, ret, err, want)
		v.Cover("byte")
	case 2: // SIGNEXTEND(k, x)
		k := []int{0, 1, 7, 8, 15, 30, 31, 32, 255}[v.Choice("k", 9)]
		kw := verifWSmall(k)
		code := verifPushW(nil, xb)
		code = verifPushW(code, kw[:])
		code = append(code, byte(SIGNEXTEND))
		ret, err := verifRunCode(v, append(code, verifRetTop...), nil)
		want := x
		if k < 31 {
			fill := byte(0) - (x[31-k] >> 7)
			for i := 0; i < 31-k; i++ {
				want[i] = fill
			}
		}
		verifExpect(v, ret, err, want)
		v.Cover("signextend")
	case 3: // PUSHn, DUPk, SWAPk, POP
		n := 1 + v.Choice("depth", 16)
		vals := v.Bytes("stack", n)
		var code []byte
		for i := 0; i < n; i++ {
			code = append(code, byte(PUSH1), vals[i]) // vals[n-1] ends on top
		}
		k := 1 + v.Choice("k", 16)
		var want verifW
		switch v.Choice("stack-op", 4) {
		case 0: // DUPk copies the k-th item from the top
			if k > n {
				v.Assume(false)
			}
			code = append(code, byte(DUP1)+byte(k-1))
			want[31] = vals[n-k]
			v.Cover("dup")
		case 1: // SWAPk exchanges the top with the (k+1)-th item
			if k+1 > n {
				v.Assume(false)
			}
			code = append(code, byte(SWAP1)+byte(k-1))
			if v.Choice("observe", 2) == 0 {
				want[31] = vals[n-1-k]
			} else {
				// pop k items: the old top is now at depth k+1
				for i := 0; i < k; i++ {
					code = append(code, byte(POP))
				}
				want[31] = vals[n-1]
			}
			v.Cover("swap")
		case 2: // POP
			if n < 2 {
				v.Assume(false)
			}
			code = append(code, byte(POP))
			want[31] = vals[n-2]
		case 3: // PUSHm with symbolic immediate bytes
			m := []int{1, 2, 5, 20, 31, 32}[v.Choice("push-size", 6)]
			imm := xb[:m]
			code = verifPushW(code, imm)
			want = verifWFrom(imm)
			v.Cover("push")
		}
		ret, err := verifRunCode(v, append(code, verifRetTop...), nil)
		verifExpect(v, ret, err, want)
	case 4: // memory: MSTORE / MSTORE8 / MLOAD / MSIZE
		mem := make([]byte, 160)
		off := []int{0, 1, 31, 32, 33}[v.Choice("store-offset", 5)]
		var code []byte
		if v.Choice("store", 2) == 0 {
			code = verifPushW(code, xb)
			code = append(code, byte(PUSH1), byte(off), byte(MSTORE))
			copy(mem[off:], xb)
		} else {
			code = verifPushW(code, xb) // MSTORE8 stores the low byte
			code = append(code, byte(PUSH1), byte(off), byte(MSTORE8))
			mem[off] = xb[31]
			v.Cover("mstore8")
		}
		var want verifW
		if v.Choice("observe", 2) == 0 {
			lo := []int{0, 1, 32, 40}[v.Choice("load-offset", 4)]
			code = append(code, byte(PUSH1), byte(lo), byte(MLOAD))
			copy(want[:], mem[lo:lo+32])
			v.Cover("mload")
		} else {
			code = append(code, byte(MSIZE))
			words := (off + 32 + 31) / 32
			if len(code) > 0 && code[len(code)-2] == byte(MSTORE8) {
				words = (off + 1 + 31) / 32
			}
			want = verifWSmall(words * 32)
			v.Cover("msize")
		}
		ret, err := verifRunCode(v, append(code, verifRetTop...), nil)
		verifExpect(v, ret, err, want)
	case 5: // call data
		L := []int{0, 1, 31, 32, 33, 40}[v.Choice("input-len", 6)]
		input := v.Bytes("input", L)
		padded := make([]byte, 200)
		copy(padded, input)
		var code []byte
		var want verifW
		switch v.Choice("calldata-op", 3) {
		case 0:
			off := []int{0, 1, 31, 32, 39, 100}[v.Choice("data-offset", 6)]
			ow := verifWSmall(off)
			if v.Choice("huge-offset", 2) == 1 {
				ow[5] = v.U8("high-byte")
				v.Assume(ow[5] != 0)
				off = 150
			}
			code = verifPushW(code, ow[:])
			code = append(code, byte(CALLDATALOAD))
			copy(want[:], padded[off:off+32])
			v.Cover("calldataload")
		case 1:
			code = append(code, byte(CALLDATASIZE))
			want = verifWSmall(L)
		case 2:
			off := []int{0, 1, 32, 39, 100}[v.Choice("data-offset", 5)]
			n := []int{0, 1, 32}[v.Choice("copy-len", 3)]
			ow := verifWSmall(off)
			if v.Choice("huge-offset", 2) == 1 {
				// an offset that does not fit 64 bits is past the end of any call data: zeros are copied
				ow[5] = v.U8("high-byte")
				v.Assume(ow[5] != 0)
				off = 150
			}
			code = append(code, byte(PUSH1), byte(n))
			code = verifPushW(code, ow[:])
			code = append(code, byte(PUSH1), 0, byte(CALLDATACOPY), byte(PUSH1), 0, byte(MLOAD))
			copy(want[:n], padded[off:off+n])
			v.Cover("calldatacopy")
		}
		ret, err := verifRunCode(v, append(code, verifRetTop...), input)
		verifExpect(v, ret, err, want)
	case 6: // control flow: PC, JUMP, JUMPI
		cond := xb[31]
		// 0: PUSH1 cond  2: PUSH1 dest  4: JUMPI  5: PUSH1 0xAA  7: <ret 8 bytes>  15: JUMPDEST  16: PUSH1 0xBB  18: <ret>
		dest := byte(15)
		bad := v.Choice("destination", 3)
		switch bad {
		case 1:
			dest = 16 // not a JUMPDEST
		case 2:
			dest = 6 // the data byte of PUSH1 0xAA ... made a 0x5b below
		}
		code := []byte{byte(PUSH1), cond, byte(PUSH1), dest, byte(JUMPI), byte(PUSH1), 0xAA}
		if bad == 2 {
			code[6] = byte(JUMPDEST) // a 0x5b inside push data is not a valid destination
		}
		code = append(code, verifRetTop...)
		code = append(code, byte(JUMPDEST), byte(PUSH1), 0xBB)
		code = append(code, verifRetTop...)
		if v.Choice("unconditional", 2) == 1 {
			code[0], code[1], code[4] = byte(PUSH1), 0, byte(JUMP) // PUSH1 0 (ignored below), PUSH1 dest, JUMP
			code = append([]byte{}, code...)
			// JUMP consumes only the destination: drop the first push by turning it into JUMPDEST;JUMPDEST
			code[0], code[1] = byte(JUMPDEST), byte(JUMPDEST)
			cond = 1
		}
		ret, err := verifRunCode(v, code, nil)
		taken := cond != 0
		switch {
		case taken && bad != 0:
			v.Assert(err == ErrInvalidJump, "C10.jump.invalid-destination-accepted")
			v.Cover("invalid-jump")
		case taken:
			verifExpect(v, ret, err, verifWSmall(0xBB))
			v.Cover("jump-taken")
		default:
			want := verifWSmall(0xAA)
			if bad == 2 {
				want = verifWSmall(int(byte(JUMPDEST)))
			}
			verifExpect(v, ret, err, want)
			v.Cover("fall-through")
		}
	}
}
