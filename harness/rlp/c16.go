package rlp

import (
	"bytes"
	"math/big"
	"reflect"
)

// Reference: the canonical RLP item grammar (Yellow Paper, appendix B), written
// independently of the implementation. ok=false means "not a canonical item prefix".
type verifRef struct {
	ok        bool
	kind      Kind
	tag, size uint64
}

func verifBE(b []byte) uint64 {
	var n uint64
	for _, x := range b {
		n = n<<8 | uint64(x)
	}
	return n
}

func verifRefItem(b []byte) verifRef {
	L := uint64(len(b))
	if L == 0 {
		return verifRef{}
	}
	p := b[0]
	long := func(base byte, kind Kind) verifRef {
		ll := uint64(p - base)
		if L < 1+ll {
			return verifRef{}
		}
		if b[1] == 0 {
			return verifRef{} // leading zero in the size
		}
		n := verifBE(b[1 : 1+ll])
		if n < 56 {
			return verifRef{} // short payload with long-form header
		}
		if n > L-1-ll {
			return verifRef{} // missing bytes
		}
		return verifRef{true, kind, 1 + ll, n}
	}
	switch {
	case p < 0x80:
		return verifRef{true, Byte, 0, 1}
	case p <= 0xB7:
		n := uint64(p - 0x80)
		if L < 1+n {
			return verifRef{}
		}
		if n == 1 && b[1] < 0x80 {
			return verifRef{} // single byte wrapped as a string
		}
		return verifRef{true, String, 1, n}
	case p <= 0xBF:
		return long(0xB7, String)
	case p <= 0xF7:
		n := uint64(p - 0xC0)
		if L < 1+n {
			return verifRef{}
		}
		return verifRef{true, List, 1, n}
	default:
		return long(0xF7, List)
	}
}

func verifInput(v *VerifV) []byte {
	L := v.Len("len", 0, v.Param("L"))
	return v.Bytes("b", L)
}

// VerifC16_R1: Split / SplitString / SplitList / CountValues on every byte string of <= L bytes.
func VerifC16_R1(v *VerifV) {
	b := verifInput(v)
	ref := verifRefItem(b)
	k, content, rest, err := Split(b)
	v.Assert((err == nil) == ref.ok, "C16.split.accepts-iff-canonical")
	if err != nil || !ref.ok {
		v.Cover("rejected")
		v.Assert(len(rest) == len(b), "C16.split.rest-on-error")
		return
	}
	v.Cover("accepted")
	switch ref.kind {
	case Byte:
		v.Cover("byte")
	case String:
		v.Cover("string")
		if ref.tag > 1 {
			v.Cover("long-string")
		}
	case List:
		v.Cover("list")
	}
	v.Assert(k == ref.kind, "C16.split.kind")
	v.Assert(uint64(len(content)) == ref.size, "C16.split.content-length")
	v.Assert(uint64(len(rest)) == uint64(len(b))-ref.tag-ref.size, "C16.split.rest-length")
	tag, size := int(v.Concrete(ref.tag)), int(v.Concrete(ref.size))
	for i := 0; i < size && i < len(content); i++ {
		v.Assert(content[i] == b[tag+i], "C16.split.content-bytes")
	}
	for i := 0; i < len(rest); i++ {
		v.Assert(rest[i] == b[tag+size+i], "C16.split.rest-bytes")
	}
	// typed splitters agree
	sc, _, serr := SplitString(b)
	v.Assert((serr == nil) == (ref.kind != List), "C16.splitstring.kind")
	if serr == nil {
		v.Assert(len(sc) == len(content), "C16.splitstring.content")
	}
	lc, _, lerr := SplitList(b)
	v.Assert((lerr == nil) == (ref.kind == List), "C16.splitlist.kind")
	if lerr == nil {
		v.Assert(len(lc) == len(content), "C16.splitlist.content")
	}
	// uniqueness: re-encoding the decoded string reproduces the input prefix
	if ref.kind != List {
		var eb encBuffer
		eb.writeBytes(content)
		enc := eb.makeBytes()
		v.Assert(len(enc) == tag+size || (ref.kind == Byte && len(enc) == 1), "C16.reencode.length")
		for i := 0; i < len(enc) && i < len(b); i++ {
			v.Assert(enc[i] == b[i], "C16.reencode.differs-from-input")
		}
	}
}

// VerifC16_R2: the Stream API on every byte string: one top-level value, then EOF.
func VerifC16_R2(v *VerifV) {
	b := verifInput(v)
	ref := verifRefItem(b)
	s := NewStream(bytes.NewReader(b), 0)
	kind, size, err := s.Kind()
	if !ref.ok {
		// the header may be readable, but then fetching the value must fail
		if err == nil {
			switch kind {
			case List:
				_, err = s.List()
				if err == nil {
					// list header accepted: content must fit the input (checked by limit)
					v.Fail("C16.stream.list-accepted-noncanonical")
				}
			default:
				_, err = s.Bytes()
			}
		}
		v.Assert(err != nil, "C16.stream.accepts-noncanonical")
		v.Cover("rejected")
		return
	}
	v.Assert(err == nil, "C16.stream.rejects-canonical")
	if err != nil {
		return
	}
	v.Cover("accepted")
	if ref.kind == Byte {
		// Stream.Kind documents size 0 for Byte: the value is in the tag
		v.Assert(kind == Byte && size == 0, "C16.stream.kind-size")
	} else {
		v.Assert(kind == ref.kind && size == ref.size, "C16.stream.kind-size")
	}
	tag := int(v.Concrete(ref.tag))
	switch ref.kind {
	case List:
		n, lerr := s.List()
		v.Assert(lerr == nil && n == ref.size, "C16.stream.list")
		v.Cover("list")
	default:
		got, berr := s.Bytes()
		v.Assert(berr == nil, "C16.stream.bytes-rejects-canonical")
		if berr == nil {
			v.Assert(uint64(len(got)) == ref.size, "C16.stream.bytes-length")
			for i := range got {
				v.Assert(got[i] == b[tag+i], "C16.stream.bytes-content")
			}
		}
		v.Cover("string")
	}
}

// VerifC16_R3: integers. encode is canonical and unique, decode inverts it, and the
// integer decoders accept exactly the canonical integer encodings.
func VerifC16_R3(v *VerifV) {
	x := v.U64("x")
	enc := AppendUint64(nil, x)
	var eb encBuffer
	eb.writeUint64(x)
	enc2 := eb.makeBytes()
	v.Assert(len(enc) == len(enc2), "C16.uint.encoders-differ")
	for i := range enc {
		if i < len(enc2) {
			v.Assert(enc[i] == enc2[i], "C16.uint.encoders-differ")
		}
	}
	v.Assert(len(enc) == IntSize(x), "C16.uint.intsize")
	ref := verifRefItem(enc)
	v.Assert(ref.ok && ref.kind != List && ref.tag+ref.size == uint64(len(enc)), "C16.uint.encoding-not-canonical")
	if len(enc) > 1 {
		v.Assert(enc[1] != 0, "C16.uint.leading-zero")
		v.Cover("multi-byte")
	}
	y, rest, err := SplitUint64(enc)
	v.Assert(err == nil && y == x && len(rest) == 0, "C16.uint.split-roundtrip")
	s := NewStream(bytes.NewReader(enc), 0)
	z, serr := s.Uint64()
	v.Assert(serr == nil && z == x, "C16.uint.stream-roundtrip")
}

// VerifC16_R3d: arbitrary bytes offered to the integer decoders.
func VerifC16_R3d(v *VerifV) {
	b := verifInput(v)
	ref := verifRefItem(b)
	canonInt := ref.ok && ref.kind != List && ref.size <= 8
	var val uint64
	if canonInt {
		tag, size := int(v.Concrete(ref.tag)), int(v.Concrete(ref.size))
		val = verifBE(b[tag : tag+size])
		if size > 0 && b[tag] == 0 {
			canonInt = false // leading zero (includes the single byte 0x00)
		}
	}
	x, _, err := SplitUint64(b)
	v.Assert((err == nil) == canonInt, "C16.uint.split-accepts-iff-canonical")
	if err == nil && canonInt {
		v.Assert(x == val, "C16.uint.split-value")
		v.Cover("int-accepted")
	}
	s := NewStream(bytes.NewReader(b), 0)
	y, serr := s.Uint64()
	v.Assert((serr == nil) == canonInt, "C16.uint.stream-accepts-iff-canonical")
	if serr == nil && canonInt {
		v.Assert(y == val, "C16.uint.stream-value")
	}
	s2 := NewStream(bytes.NewReader(b), 0)
	bv, berr := s2.Bool()
	canonBool := canonInt && val <= 1
	v.Assert((berr == nil) == canonBool, "C16.bool.accepts-iff-canonical")
	if berr == nil && canonBool {
		v.Assert(bv == (val == 1), "C16.bool.value")
	}
}

// VerifC16_R6: big integers through the real decodeBigInt (payloads up to L-2 bytes, i.e.
// beyond the 32-byte scratch buffer) and back through writeBigInt.
func VerifC16_R6(v *VerifV) {
	b := verifInput(v)
	ref := verifRefItem(b)
	canon := ref.ok && ref.kind != List && ref.tag+ref.size == uint64(len(b))
	tag, size := 0, 0
	if canon {
		tag, size = int(v.Concrete(ref.tag)), int(v.Concrete(ref.size))
		if size > 0 && b[tag] == 0 {
			canon = false
		}
	}
	s := NewStream(bytes.NewReader(b), 0)
	var dst *big.Int
	err := decodeBigInt(s, reflect.ValueOf(&dst).Elem())
	if err == nil {
		// no trailing garbage check here: decodeBigInt reads one value; the input is one item by assumption
		v.Assume(ref.ok && ref.tag+ref.size == uint64(len(b)))
		v.Cover("bigint-accepted")
		if size > 32 {
			v.Cover("bigint-long")
		}
		v.Assert(canon, "C16.bigint.accepts-noncanonical")
		if canon {
			want := new(big.Int).SetBytes(b[tag : tag+size])
			v.Assert(dst != nil && dst.Cmp(want) == 0, "C16.bigint.value")
		}
	} else if canon {
		v.Fail("C16.bigint.rejects-canonical")
	}
}

// VerifC16_R4: byte strings round trip (short, 55/56 boundary, long).
func VerifC16_R4(v *VerifV) {
	n := v.Choice("n", 6)
	size := []int{0, 1, 2, 55, 56, 57}[n]
	content := v.Bytes("content", size)
	var eb encBuffer
	eb.writeBytes(content)
	enc := eb.makeBytes()
	ref := verifRefItem(enc)
	v.Assert(ref.ok && ref.tag+ref.size == uint64(len(enc)), "C16.bytes.encoding-not-canonical")
	if size >= 56 {
		v.Cover("long-form")
	}
	s := NewStream(bytes.NewReader(enc), 0)
	got, err := s.Bytes()
	v.Assert(err == nil && len(got) == size, "C16.bytes.roundtrip")
	if err == nil && len(got) == size {
		for i := range got {
			v.Assert(got[i] == content[i], "C16.bytes.roundtrip-content")
		}
	}
	k, c2, rest, serr := Split(enc)
	v.Assert(serr == nil && k != List && len(c2) == size && len(rest) == 0, "C16.bytes.split-roundtrip")
}

// VerifC16_R7: Stream.Raw (which re-creates the header it has consumed) and the size helpers
// ListSize / headsize on items around the short/long header boundary: for a string or list
// whose payload has n bytes, n in {0,1,2,54..58,255,256,257}, with symbolic content, Raw returns
// exactly the canonical encoding it read (so it round-trips and re-splits), and the size helpers
// agree with the length of that encoding.
func VerifC16_R7(v *VerifV) {
	sizes := []int{0, 1, 2, 54, 55, 56, 57, 58, 255, 256, 257}
	size := sizes[v.Choice("n", len(sizes))]
	list := v.Bool("list")
	content := make([]byte, size)
	// symbolic first/last content bytes (the ones a wrong header size would overwrite or drop)
	for _, i := range []int{0, 1, size - 2, size - 1} {
		if i >= 0 && i < size {
			content[i] = v.U8("content-byte")
		}
	}
	if list {
		// a list payload must itself be a sequence of items: single-byte items
		for i := range content {
			v.Assume(content[i] < 0x80)
		}
	} else if size == 1 {
		v.Assume(content[0] >= 0x80) // a single byte below 0x80 is its own encoding
	}
	// reference encoding (Yellow Paper)
	var enc []byte
	base := byte(0x80)
	if list {
		base = 0xC0
	}
	switch {
	case size < 56:
		enc = append(enc, base+byte(size))
	case size < 256:
		enc = append(enc, base+55+1, byte(size))
		v.Cover("long-form")
	default:
		enc = append(enc, base+55+2, byte(size>>8), byte(size))
	}
	enc = append(enc, content...)
	s := NewStream(bytes.NewReader(enc), 0)
	raw, err := s.Raw()
	v.Assert(err == nil, "C16.raw.error-on-canonical-item")
	v.Assert(len(raw) == len(enc), "C16.raw.length-differs-from-input")
	if err == nil && len(raw) == len(enc) {
		for i := range raw {
			v.Assert(raw[i] == enc[i], "C16.raw.bytes-differ-from-input")
		}
	}
	if list {
		v.Assert(ListSize(uint64(size)) == uint64(len(enc)), "C16.size.listsize-differs-from-encoding")
	}
	v.Assert(headsize(uint64(size)) == len(enc)-size, "C16.size.headsize-differs-from-encoding")
	if size == 56 {
		v.Cover("boundary-56")
	}
}

// VerifC16_R8: input-limit enforcement before allocation in nested lists: a limited stream over
// L symbolic bytes that starts with two list headers is walked with List, List, then up to four
// element reads (Bytes) with ListEnd attempts in between - whatever the bytes, no call panics and
// no call allocates more than the input holds (the engine bounds every allocation by L).
func VerifC16_R8(v *VerifV) {
	L := v.Param("L")
	b := v.Bytes("b", L)
	v.Assume(b[0] >= 0xC0 && b[0] <= 0xF7 && b[1] >= 0xC0 && b[1] <= 0xF7) // two short-form list headers
	s := NewStream(bytes.NewReader(b), uint64(L))
	if _, err := s.List(); err != nil {
		v.Cover("rejected")
		return
	}
	if _, err := s.List(); err != nil {
		v.Cover("rejected")
		return
	}
	v.Cover("nested-list-entered")
	for i := 0; i < 4; i++ {
		if _, err := s.Bytes(); err != nil {
			if err == EOL {
				if s.ListEnd() != nil {
					v.Cover("rejected")
					return
				}
				continue
			}
			v.Cover("rejected")
			return
		}
		v.Cover("element-read")
	}
}
