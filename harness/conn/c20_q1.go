package conn

import (
	"errors"
)

var verifV *VerifV

// AEAD model: ciphertext = plaintext || tag, tag = UF(key id, nonce, plaintext); Open recomputes
// the tag. (ChaCha20-Poly1305 integrity is the assumption; confidentiality is not modelled.)
type verifAEAD struct{ key byte }

func (a verifAEAD) NonceSize() int { return aeadNonceSize }
func (a verifAEAD) Overhead() int  { return aeadSizeOverhead }
func (a verifAEAD) tag(nonce, pt []byte) []byte {
	return verifV.UF("poly1305", true, aeadSizeOverhead, []byte{a.key}, nonce, pt)
}
func (a verifAEAD) Seal(dst, nonce, plaintext, ad []byte) []byte {
	out := append(dst, plaintext...)
	return append(out, a.tag(nonce, plaintext)...)
}
func (a verifAEAD) Open(dst, nonce, ciphertext, ad []byte) ([]byte, error) {
	if len(ciphertext) < aeadSizeOverhead {
		return nil, errors.New("ciphertext too short")
	}
	pt := ciphertext[:len(ciphertext)-aeadSizeOverhead]
	tag := ciphertext[len(ciphertext)-aeadSizeOverhead:]
	want := a.tag(nonce, pt)
	var diff byte
	for i := range tag {
		diff |= tag[i] ^ want[i]
	}
	if diff != 0 {
		return nil, errors.New("message authentication failed")
	}
	return append(dst, pt...), nil
}

// in-memory connection: frames written by one side are queued for the other
type verifPipe struct {
	frames [][]byte
	rd     []byte
}

func (p *verifPipe) Write(b []byte) (int, error) {
	p.frames = append(p.frames, append([]byte(nil), b...))
	return len(b), nil
}
func (p *verifPipe) Read(b []byte) (int, error) {
	if len(p.rd) == 0 {
		if len(p.frames) == 0 {
			return 0, errors.New("EOF")
		}
		p.rd = p.frames[0]
		p.frames = p.frames[1:]
	}
	n := copy(b, p.rd)
	p.rd = p.rd[n:]
	return n, nil
}
func (p *verifPipe) Close() error { return nil }

func verifMkSC(conn *verifPipe, sendKey, recvKey byte) *SecretConnection {
	return &SecretConnection{conn: conn, sendAead: verifAEAD{sendKey}, recvAead: verifAEAD{recvKey},
		recvNonce: new([aeadNonceSize]byte), sendNonce: new([aeadNonceSize]byte)}
}

// VerifC20_Q1: bytes written are read once, in order and unchanged for any read chunking;
// nonces advance by one per frame; a flipped, dropped, duplicated or swapped frame is detected.
func VerifC20_Q1(v *VerifV) {
	verifV = v
	pipe := &verifPipe{}
	w := verifMkSC(pipe, 1, 2)
	r := verifMkSC(pipe, 2, 1)
	// payload: one or two frames worth of data with symbolic bytes at the boundaries
	two := v.Choice("frames", 2) == 1
	n := 3
	if two {
		n = dataMaxSize + 2
		v.Cover("two-frames")
	}
	data := make([]byte, n)
	for i := range data {
		data[i] = byte(i*7 + 1)
	}
	sym := v.Bytes("sym", 3)
	data[0], data[n-2], data[n-1] = sym[0], sym[1], sym[2]
	wn, werr := w.Write(data)
	v.Assert(werr == nil && wn == n, "C20.secret.write")
	wantFrames := 1
	if two {
		wantFrames = 2
	}
	v.Assert(len(pipe.frames) == wantFrames, "C20.secret.frame-count")
	v.Assert(w.sendNonce[4] == byte(wantFrames) && w.sendNonce[5] == 0, "C20.secret.send-nonce-not-advanced-per-frame")

	// man in the middle
	tamper := v.Choice("tamper", 5)
	switch tamper {
	case 1: // flip one byte of the first frame (position symbolic among a few)
		pos := []int{0, 3, 4, 5, totalFrameSize, totalFrameSize + aeadSizeOverhead - 1}[v.Choice("pos", 6)]
		nb := v.U8("newbyte")
		v.Assume(nb != pipe.frames[0][pos])
		pipe.frames[0][pos] = nb
		v.Cover("flipped")
	case 2: // drop the first frame
		if !two {
			v.Assume(false)
		}
		pipe.frames = pipe.frames[1:]
		v.Cover("dropped")
	case 3: // duplicate (replay) the first frame
		pipe.frames = append([][]byte{pipe.frames[0]}, pipe.frames...)
		v.Cover("replayed")
	case 4: // swap
		if !two {
			v.Assume(false)
		}
		pipe.frames[0], pipe.frames[1] = pipe.frames[1], pipe.frames[0]
		v.Cover("swapped")
	}
	// read back with an arbitrary first chunk size, then the rest
	first := []int{1, 2, 3, 5, dataMaxSize, dataMaxSize + 5}[v.Choice("read-chunk", 6)]
	var got []byte
	var rerr error
	buf := make([]byte, first)
	for len(got) < n && rerr == nil {
		var k int
		k, rerr = r.Read(buf)
		got = append(got, buf[:k]...)
		buf = make([]byte, 7)
		if len(got) > n+8 {
			break
		}
	}
	switch tamper {
	case 0:
		v.Assert(rerr == nil && len(got) == n, "C20.secret.read")
		if len(got) == n {
			var diff byte
			for i := range got {
				diff |= got[i] ^ data[i]
			}
			v.Assert(diff == 0, "C20.secret.bytes-changed")
		}
		v.Assert(r.recvNonce[4] == byte(wantFrames), "C20.secret.recv-nonce-not-advanced-per-frame")
		v.Cover("clean")
	case 3:
		// the first copy is genuine; the replayed copy must be refused
		v.Assert(rerr != nil || len(got) <= n, "C20.secret.replay-delivered")
		if rerr == nil {
			_, e2 := r.Read(make([]byte, 4))
			v.Assert(e2 != nil, "C20.secret.replay-delivered")
		}
	default:
		// the first frame read is not the genuine next frame: nothing of it may be delivered
		v.Assert(rerr != nil, "C20.secret.tampering-not-detected")
		v.Assert(len(got) == 0, "C20.secret.tampered-data-delivered")
	}
}
