package conn

import (
	kp2p "github.com/kardiachain/go-kardia/proto/kardiachain/p2p"
)

func verifMkChannel(id byte, payload, recvCap, queue int) *Channel {
	return &Channel{
		desc:                    ChannelDescriptor{ID: id, Priority: 1, SendQueueCapacity: queue, RecvMessageCapacity: recvCap, RecvBufferCapacity: 4},
		sendQueue:               make(chan []byte, queue),
		recving:                 make([]byte, 0, 4),
		maxPacketMsgPayloadSize: payload,
		Logger:                  verifNopLogger{},
	}
}

// VerifC20_Q3: packetisation and reassembly on one channel: every message sent is delivered
// exactly once, intact and in order, for any mix of sizes (incl. exact multiples of the packet
// payload); messages above the receive capacity are refused; the receive buffer never holds
// more than the capacity.
func VerifC20_Q3(v *VerifV) {
	P := v.Param("P")     // max packet payload
	C := v.Param("C")     // receive message capacity
	K := v.Param("K")     // number of messages
	M := v.Param("M")     // max message length
	snd := verifMkChannel(0x20, P, C, K)
	rcv := verifMkChannel(0x20, P, C, K)
	var sent [][]byte
	for k := 0; k < K; k++ {
		n := v.Len("msg-len", 0, M)
		m := v.Bytes("msg", n)
		sent = append(sent, m)
		snd.sendQueue <- append([]byte(nil), m...)
		snd.sendQueueSize++
		if n > 0 && n%P == 0 {
			v.Cover("exact-multiple")
		}
		if n > C {
			v.Cover("over-capacity")
		}
	}
	var got [][]byte
	refused := false
	steps := 0
	for snd.isSendPending() {
		steps++
		if steps > K*(M/P+2) {
			v.Fail("C20.channel.sender-does-not-terminate")
			break
		}
		pkt := snd.nextPacketMsg()
		v.Assert(len(pkt.Data) <= P, "C20.channel.packet-above-payload-limit")
		out, err := rcv.recvPacketMsg(pkt)
		v.Assert(len(rcv.recving) <= C, "C20.channel.receive-buffer-above-capacity")
		if err != nil {
			refused = true
			v.Cover("refused")
			break
		}
		if out != nil {
			got = append(got, out)
		}
	}
	if refused {
		// only because a message exceeds the capacity; everything before it arrived intact
		idx := len(got)
		v.Assert(idx < K && len(sent[idx]) > C, "C20.channel.refused-message-within-capacity")
	} else {
		v.Assert(len(got) == K, "C20.channel.message-lost-or-merged")
		v.Assert(snd.sendQueueSize == 0, "C20.channel.send-queue-size-leak")
		v.Assert(len(rcv.recving) == 0, "C20.channel.partial-message-left")
		v.Cover("all-delivered")
	}
	for i := range got {
		if i < K {
			v.Assert(len(got[i]) == len(sent[i]), "C20.channel.message-changed")
			if len(got[i]) == len(sent[i]) {
				for x := range got[i] {
					v.Assert(got[i][x] == sent[i][x], "C20.channel.message-changed")
				}
			}
		}
	}
}

// VerifC18_Q3adv: an arbitrary packet stream from a peer: the buffered partial message never
// exceeds the channel's receive capacity; the stream is cut with an error when it would.
func VerifC18_Q3adv(v *VerifV) {
	C := v.Param("C")
	K := v.Param("K")
	rcv := verifMkChannel(0x20, 4, C, 1)
	total := 0
	for k := 0; k < K; k++ {
		n := v.Len("data-len", 0, C+1)
		pkt := kp2p.PacketMsg{ChannelID: 0x20, EOF: v.Bool("eof"), Data: v.Bytes("data", n)}
		out, err := rcv.recvPacketMsg(pkt)
		if err != nil {
			v.Cover("peer-stopped")
			v.Assert(total+n > C, "C18.channel.refused-within-capacity")
			return
		}
		total += n
		v.Assert(len(rcv.recving) <= C, "C18.channel.unbounded-receive-buffer")
		v.Assert(total <= C, "C18.channel.unbounded-receive-buffer")
		if out != nil {
			v.Assert(len(out) == total, "C18.channel.delivered-length")
			total = 0
			v.Cover("delivered")
		}
	}
}
