package conn

import "sync"

// ---- Q1c: two writers on one SecretConnection ---------------------------------------------------
//
// The engine runs one goroutine. Concurrency is modelled by a bounded context switch at the one
// point where a writer blocked on sendMtx can get in: when the mutex is released. The hook below
// runs a complete Write of the second writer at that moment (a schedule the Go runtime can
// produce). If the frame of the first writer has not reached the wire by then, the frames arrive
// out of nonce order.

var verifSC *SecretConnection
var verifSecond []byte
var verifSecondDone bool

func verifOnUnlock(m *sync.Mutex) {
	if verifSC == nil || m != &verifSC.sendMtx.Mutex || verifSecondDone || verifSecond == nil {
		return
	}
	verifSecondDone = true
	n, err := verifSC.Write(verifSecond)
	verifV.Assert(err == nil && n == len(verifSecond), "C20.secret.write")
}

// VerifC20_Q1c: writer A writes one or two frames' worth of data while writer B, blocked on the
// send mutex, writes its own data as soon as the mutex is released (any of A's releases). The
// reader must get every byte of both writers exactly once, each writer's bytes in order, without
// a decryption error.
func VerifC20_Q1c(v *VerifV) {
	verifV = v
	pipe := &verifPipe{}
	w := verifMkSC(pipe, 1, 2)
	r := verifMkSC(pipe, 2, 1)
	nA := 3
	if v.Choice("frames", 2) == 1 {
		nA = dataMaxSize + 2
		v.Cover("two-frames")
	}
	a := make([]byte, nA)
	for i := range a {
		a[i] = 0xA0
	}
	sa := v.Bytes("a", 2)
	v.Assume(sa[0] != 0xB0 && sa[1] != 0xB0)
	a[0], a[nA-1] = sa[0], sa[1]
	b := []byte{0xB0, 0xB0, 0xB0, 0xB0}
	verifSC, verifSecond, verifSecondDone = w, b, false
	n, err := w.Write(a)
	v.Assert(err == nil && n == nA, "C20.secret.write")
	v.Assert(verifSecondDone, "C20.model.second-writer-never-ran")
	v.Cover("second-writer-ran")
	verifSC = nil
	total := nA + len(b)
	var got []byte
	for len(got) < total {
		buf := make([]byte, 64)
		k, rerr := r.Read(buf)
		v.Assert(rerr == nil, "C20.secret.concurrent-writers-frame-lost")
		if rerr != nil {
			return
		}
		got = append(got, buf[:k]...)
	}
	v.Assert(len(got) == total, "C20.secret.read")
	// each writer's bytes in order: removing B's bytes leaves exactly A's data
	var onlyA []byte
	nb := 0
	for _, x := range got {
		if x == 0xB0 {
			nb++
		} else {
			onlyA = append(onlyA, x)
		}
	}
	v.Assert(nb == len(b) && len(onlyA) == nA, "C20.secret.concurrent-writers-bytes-lost-or-duplicated")
	if len(onlyA) == nA {
		var diff byte
		for i := range onlyA {
			diff |= onlyA[i] ^ a[i]
		}
		v.Assert(diff == 0, "C20.secret.concurrent-writers-bytes-reordered")
	}
}
