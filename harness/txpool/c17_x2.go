package tx_pool

import (
	"math/big"
	"time"

	"github.com/kardiachain/go-kardia/configs"
	"github.com/kardiachain/go-kardia/kai/events"
	"github.com/kardiachain/go-kardia/kai/state"
	cmn "github.com/kardiachain/go-kardia/lib/common"
	"github.com/kardiachain/go-kardia/lib/event"
	"github.com/kardiachain/go-kardia/lib/metrics"
	"github.com/kardiachain/go-kardia/types"
)

// ---- stubs -------------------------------------------------------------------------------------

type verifTxInfo struct {
	from  int
	id    byte
	nonce uint64
	gas   uint64
	cost  *big.Int
	price *big.Int
	local bool
}

var verifTxs map[*types.Transaction]*verifTxInfo

// types.Sender (signature recovery): the sender recorded when the harness built the transaction.
func verifStubSender(_ types.Signer, tx *types.Transaction) (cmn.Address, error) {
	if in := verifTxs[tx]; in != nil {
		return verifAcct(in.from), nil
	}
	return cmn.Address{}, types.ErrInvalidSig
}

// (*Transaction).Hash (RLP + Keccak): a distinct constant per transaction object; a duplicate
// submission is the same object.
func verifStubTxHash(tx *types.Transaction) cmn.Hash {
	if in := verifTxs[tx]; in != nil {
		return cmn.Hash{0x7A, in.id}
	}
	return cmn.Hash{0x7B}
}

// (*Transaction).Size (RLP size): one slot.
func verifStubTxSize(tx *types.Transaction) cmn.StorageSize { return 120 }

func verifAcct(i int) cmn.Address { return cmn.Address{0xC0, byte(i + 1)} }

// the chain the pool looks at: only the head state matters (extension of the chain, no reorg)
type verifChain struct {
	st       *state.StateDB
	gasLimit uint64
	height   uint64
}

func (c *verifChain) CurrentBlock() *types.Block {
	return types.NewBlockWithHeader(&types.Header{Height: c.height, GasLimit: c.gasLimit})
}
func (c *verifChain) GetBlock(cmn.Hash, uint64) *types.Block { return nil }
func (c *verifChain) StateAt(uint64) (*state.StateDB, error) { return c.st, nil }
func (c *verifChain) SubscribeChainHeadEvent(chan<- events.ChainHeadEvent) event.Subscription {
	return nil
}

// ---- X2 ----------------------------------------------------------------------------------------

type verifHead struct {
	nonce [2]uint64
	bal   [2]*big.Int
	gas   uint64
}

func verifDrawHead(v *VerifV, prev *verifHead, na int) *verifHead {
	h := &verifHead{gas: 60000}
	if v.Bool("low-gas-limit") {
		h.gas = 40000
	}
	for i := 0; i < na; i++ {
		n := v.U64("state-nonce")
		v.Assume(n < 4)
		if prev != nil {
			v.Assume(n >= prev.nonce[i]) // account nonces never decrease along a chain
		}
		h.nonce[i] = n
		h.bal[i] = v.Big("balance", 48)
	}
	return h
}

func (h *verifHead) state(na int) *state.StateDB {
	var addrs []cmn.Address
	var nonces []uint64
	var bals []*big.Int
	for i := 0; i < na; i++ {
		addrs = append(addrs, verifAcct(i))
		nonces = append(nonces, h.nonce[i])
		bals = append(bals, h.bal[i])
	}
	return state.VerifNewState(addrs, nonces, bals)
}

// verifPoolInvariant asserts what C17 states about the pool's content, against the head state.
func verifPoolInvariant(v *VerifV, pool *TxPool, h *verifHead, na int, afterReorg bool) {
	seen := map[*types.Transaction]int{}
	npending, nqueued := 0, 0
	for i := 0; i < na; i++ {
		a := verifAcct(i)
		if l := pool.pending[a]; l != nil {
			v.Assert(!l.Empty(), "C17.pool.empty-pending-list-kept")
			want := h.nonce[i]
			for _, tx := range l.Flatten() {
				in := verifTxs[tx]
				v.Assert(in != nil && in.from == i, "C17.pool.tx-in-wrong-account-list")
				if in == nil {
					continue
				}
				seen[tx]++
				npending++
				if afterReorg {
					v.Assert(tx.Nonce() == want, "C17.pool.pending-not-gap-free-from-state-nonce")
					want = tx.Nonce() + 1
					v.Assert(in.cost.Cmp(h.bal[i]) <= 0, "C17.pool.unaffordable-tx-pending")
					v.Assert(in.gas <= h.gas, "C17.pool.tx-above-block-gas-limit-pending")
				}
			}
			if afterReorg {
				v.Assert(pool.pendingNonces.get(a) == want, "C17.pool.pending-nonce-not-after-last-pending")
			}
		} else if afterReorg {
			v.Assert(pool.pendingNonces.get(a) == h.nonce[i], "C17.pool.pending-nonce-not-state-nonce")
		}
		if l := pool.queue[a]; l != nil {
			v.Assert(!l.Empty(), "C17.pool.empty-queue-list-kept")
			for _, tx := range l.Flatten() {
				in := verifTxs[tx]
				v.Assert(in != nil && in.from == i, "C17.pool.tx-in-wrong-account-list")
				if in == nil {
					continue
				}
				seen[tx]++
				nqueued++
				if afterReorg {
					v.Assert(tx.Nonce() >= h.nonce[i], "C17.pool.mined-nonce-still-queued")
					v.Assert(in.cost.Cmp(h.bal[i]) <= 0, "C17.pool.unaffordable-tx-queued")
					v.Assert(in.gas <= h.gas, "C17.pool.tx-above-block-gas-limit-queued")
				}
			}
			if afterReorg && !pool.locals.contains(a) {
				v.Assert(uint64(l.Len()) <= pool.config.AccountQueue, "C17.pool.account-queue-limit-exceeded")
			}
		}
	}
	for tx, n := range seen {
		v.Assert(n == 1, "C17.pool.tx-both-pending-and-queued")
		v.Assert(pool.all.Get(tx.Hash()) == tx, "C17.pool.listed-tx-not-indexed")
	}
	v.Assert(pool.all.Count() == len(seen), "C17.pool.indexed-tx-in-no-list")
	// executable transactions are not left in the queue: the lowest queued nonce of an account is
	// not the next pending nonce
	if afterReorg {
		for i := 0; i < na; i++ {
			a := verifAcct(i)
			if l := pool.queue[a]; l != nil && !l.Empty() {
				first := l.Flatten()[0]
				v.Assert(first.Nonce() != pool.pendingNonces.get(a), "C17.pool.executable-tx-left-queued")
			}
		}
	}
}

type verifSnap struct {
	pending, queued map[cmn.Address][]*types.Transaction
	count           int
}

func verifSnapshotPool(pool *TxPool, na int) verifSnap {
	s := verifSnap{pending: map[cmn.Address][]*types.Transaction{}, queued: map[cmn.Address][]*types.Transaction{}, count: pool.all.Count()}
	for i := 0; i < na; i++ {
		a := verifAcct(i)
		if l := pool.pending[a]; l != nil {
			s.pending[a] = append([]*types.Transaction(nil), l.Flatten()...)
		}
		if l := pool.queue[a]; l != nil {
			s.queued[a] = append([]*types.Transaction(nil), l.Flatten()...)
		}
	}
	return s
}

func verifSameTxs(a, b []*types.Transaction) bool {
	if len(a) != len(b) {
		return false
	}
	for i := range a {
		if a[i] != b[i] {
			return false
		}
	}
	return true
}

// VerifC17_X2: the pool itself (add, enqueue/promote, runReorg = reset + promoteExecutables +
// demoteUnexecutables + truncatePending + truncateQueue) under tight limits, without its
// goroutines: K steps, each a remote or local submission (symbolic nonce, price, value; a
// duplicate of an earlier transaction is possible) followed by the reorg run the pool schedules
// for it, or a head change to a state with symbolic (non-decreasing) nonces, symbolic balances and
// possibly a lower block gas limit. After every step the pool content must satisfy the property:
// per sender the pending transactions are gap-free from the state nonce, affordable and within
// the gas limit; nothing is both pending and queued; the index and the lists agree; mined nonces
// are gone; queue limits hold for remote senders; a rejected submission changes nothing.
func VerifC17_X2(v *VerifV) {
	state.VerifBind()
	na, K := v.Param("A"), v.Param("K")
	verifTxs = map[*types.Transaction]*verifTxInfo{}
	pre := v.Param("PRE")
	var head *verifHead
	if pre > 0 {
		// pre-populated variant: a concrete head under which the initial submissions are all executable
		head = &verifHead{gas: 60000}
		for i := 0; i < na; i++ {
			head.bal[i] = new(big.Int).SetUint64(1 << 47)
		}
	} else {
		head = verifDrawHead(v, nil, na)
	}
	chain := &verifChain{st: head.state(na), gasLimit: head.gas, height: 10}
	cfg := TxPoolConfig{PriceLimit: 1, PriceBump: 10, AccountSlots: 1, GlobalSlots: uint64(v.Param("GS")), AccountQueue: 2, GlobalQueue: uint64(v.Param("GQ")), Lifetime: 1 << 40}
	chainCfg := &configs.ChainConfig{}
	pool := &TxPool{
		config:   cfg,
		chainCfg: chainCfg,
		chain:    chain,
		signer:   types.HomesteadSigner{},
		pending:  make(map[cmn.Address]*txList),
		queue:    make(map[cmn.Address]*txList),
		beats:    make(map[cmn.Address]time.Time),
		all:      newTxLookup(),
		gasPrice: new(big.Int).SetUint64(cfg.PriceLimit),
	}
	pool.locals = newAccountSet(pool.signer)
	pool.priced = newTxPricedList(pool.all)
	pool.reset(nil, chain.CurrentBlock().Header())
	var made []*types.Transaction
	gases := []uint64{20000, 35000, 50000} // below intrinsic gas / fits a low block limit / needs the high one
	// pre-population: PRE cheap remote transactions, the last account gets one (the cheapest), the first the rest
	batch := v.Param("BATCH") == 1
	var allDirty *accountSet
	pre1 := v.Param("PRE1") // how many of the PRE transactions belong to the last account (0 = one)
	if pre1 == 0 {
		pre1 = 1
	}
	for k := 0; k < pre; k++ {
		from, nonce := 0, uint64(k)
		if k >= pre-pre1 && na > 1 {
			from, nonce = na-1, uint64(k-(pre-pre1))
		}
		price := big.NewInt(int64(2 + k%2))
		if from != 0 {
			price = big.NewInt(1) // the single transaction of the last account is the cheapest of the pool
		}
		tx := types.NewTransaction(nonce, cmn.Address{0x11}, big.NewInt(5), 35000, price, nil)
		cost := new(big.Int).Add(new(big.Int).Mul(price, big.NewInt(35000)), big.NewInt(5))
		verifTxs[tx] = &verifTxInfo{from: from, id: byte(len(made) + 1), nonce: nonce, gas: 35000, cost: cost, price: price}
		made = append(made, tx)
		errs, dirty := pool.addTxsLocked([]*types.Transaction{tx}, false)
		if errs[0] != nil {
			v.Fail("C17.setup.prepopulation-rejected: " + errs[0].Error())
		}
		if batch {
			// a batch of submissions is followed by one reorg run
			if allDirty == nil {
				allDirty = dirty
			} else {
				allDirty.merge(dirty)
			}
			continue
		}
		pool.runReorg(make(chan struct{}), nil, dirty, map[cmn.Address]*txSortedMap{})
	}
	if batch && allDirty != nil {
		pool.runReorg(make(chan struct{}), nil, allDirty, map[cmn.Address]*txSortedMap{})
	}
	if pre > 0 {
		verifPoolInvariant(v, pool, head, na, true)
		if uint64(pre) <= cfg.GlobalSlots {
			v.Assert(pool.all.Count() == pre, "C17.setup.prepopulation-incomplete")
		} else if pool.all.Count() < pre {
			v.Cover("truncated-during-setup")
		}
	}
	for step := 0; step < K; step++ {
		nk := 3
		if v.Param("NOHEAD") == 1 {
			nk = 2 // submissions only
		}
		kind := v.Choice("step", nk)
		if kind == 2 {
			// head change
			head = verifDrawHead(v, head, na)
			chain.st, chain.gasLimit, chain.height = head.state(na), head.gas, chain.height+1
			done := make(chan struct{})
			pool.runReorg(done, &txpoolResetRequest{nil, chain.CurrentBlock().Header()}, nil, map[cmn.Address]*txSortedMap{})
			v.Cover("head-change")
			verifPoolInvariant(v, pool, head, na, true)
			continue
		}
		local := kind == 1
		var tx *types.Transaction
		if len(made) > 0 && v.Bool("duplicate") {
			tx = made[v.Choice("which", len(made))]
		} else {
			from := v.Choice("from", na)
			nonce := v.U64("nonce")
			v.Assume(nonce < 6)
			price := v.Big("price", 32)
			amount := v.Big("amount", 48)
			gas := gases[v.Choice("gas", 3)]
			tx = types.NewTransaction(nonce, cmn.Address{0x11}, amount, gas, price, nil)
			cost := new(big.Int).Add(new(big.Int).Mul(price, new(big.Int).SetUint64(gas)), amount)
			verifTxs[tx] = &verifTxInfo{from: from, id: byte(len(made) + 1), nonce: nonce, gas: gas, cost: cost, price: price, local: local}
			made = append(made, tx)
		}
		before := verifSnapshotPool(pool, na)
		wasLocal := map[cmn.Address]bool{}
		for i := 0; i < na; i++ {
			wasLocal[verifAcct(i)] = pool.locals.contains(verifAcct(i))
		}
		errs, dirty := pool.addTxsLocked([]*types.Transaction{tx}, local)
		if errs[0] != nil {
			v.Cover("rejected")
			after := verifSnapshotPool(pool, na)
			same := before.count == after.count
			for i := 0; i < na; i++ {
				a := verifAcct(i)
				same = same && verifSameTxs(before.pending[a], after.pending[a]) && verifSameTxs(before.queued[a], after.queued[a])
			}
			v.Assert(same, "C17.pool.rejected-submission-changed-the-pool")
		} else {
			v.Cover("accepted")
		}
		verifPoolInvariant(v, pool, head, na, false)
		done := make(chan struct{})
		pool.runReorg(done, nil, dirty, map[cmn.Address]*txSortedMap{})
		verifPoolInvariant(v, pool, head, na, true)
		// local senders are exempt from eviction: a transaction of an account that was local before the
		// submission leaves the pool only when the submission replaced it (same sender and nonce)
		sub := verifTxs[tx]
		for i := 0; i < na; i++ {
			a := verifAcct(i)
			if !wasLocal[a] {
				continue
			}
			for _, old := range append(append([]*types.Transaction(nil), before.pending[a]...), before.queued[a]...) {
				if pool.all.Get(old.Hash()) == old {
					continue
				}
				replacedBySubmission := errs[0] == nil && sub.from == i && sub.nonce == old.Nonce() && tx != old
				v.Assert(replacedBySubmission, "C17.pool.local-tx-evicted")
			}
			v.Cover("local-account-present")
		}
	}
}

// metrics constructors (metrics are disabled in a default node): the package's own no-op types
func verifNilMeter(string, metrics.Registry) metrics.Meter { return metrics.NilMeter{} }
func verifNilGauge(string, metrics.Registry) metrics.Gauge { return metrics.NilGauge{} }
func verifNilTimer(string, metrics.Registry) metrics.Timer { return metrics.NilTimer{} }
func verifNilHistogram(string, metrics.Registry, metrics.Sample) metrics.Histogram {
	return metrics.NilHistogram{}
}
