package tx_pool

import (
	"math/big"
	"time"

	cmn "github.com/kardiachain/go-kardia/lib/common"
	"github.com/kardiachain/go-kardia/types"
)

func verifStubNow() time.Time { return time.Unix(1600000000, 0).UTC() }

type verifTx struct {
	tx    *types.Transaction
	price *big.Int
	cost  *big.Int
	gas   uint64
}

// VerifC17_X1: one sender's transaction list (the pool's pending list): a sequence of Add calls
// (incl. same-nonce replacements at the price-bump boundary) followed by the head-reset filter
// with an arbitrary new balance and block gas limit. A replacement happens only with the
// required bump; afterwards every transaction still offered is affordable and fits the gas limit,
// and the offered nonces are gap-free from the lowest one.
func VerifC17_X1(v *VerifV) {
	K := v.Param("K")
	const bump = 10
	l := newTxList(true)
	ref := map[uint64]*verifTx{}
	gases := []uint64{21000, 50000}
	for k := 0; k < K; k++ {
		nonce := uint64(v.Choice("nonce", 3))
		price := v.Big("price", 40)
		amount := v.Big("amount", 60)
		gas := gases[v.Choice("gas", 2)]
		tx := types.NewTransaction(nonce, cmn.Address{0x11}, amount, gas, price, nil)
		cost := new(big.Int).Add(new(big.Int).Mul(price, new(big.Int).SetUint64(gas)), amount)
		old := ref[nonce]
		inserted, replaced := l.Add(tx, bump)
		if old == nil {
			v.Assert(inserted && replaced == nil, "C17.list.new-nonce-not-inserted")
			ref[nonce] = &verifTx{tx, price, cost, gas}
		} else {
			// required: strictly dearer and at least old*(100+bump)/100
			thr := new(big.Int).Div(new(big.Int).Mul(big.NewInt(100+bump), old.price), big.NewInt(100))
			allowed := price.Cmp(old.price) > 0 && price.Cmp(thr) >= 0
			v.Assert(inserted == allowed, "C17.list.replacement-without-required-bump")
			if inserted {
				v.Assert(replaced == old.tx, "C17.list.replaced-other-tx")
				ref[nonce] = &verifTx{tx, price, cost, gas}
				v.Cover("replaced")
			} else {
				v.Cover("replacement-refused")
			}
		}
	}
	// head reset: new balance and gas limit
	balance := v.Big("balance", 70)
	gasLimit := []uint64{10000, 30000, 60000}[v.Choice("gas-limit", 3)]
	removed, invalids := l.Filter(balance, gasLimit)
	if len(removed) > 0 {
		v.Cover("filtered")
	}
	left := l.Flatten()
	// everything still offered is affordable and fits
	lowestRemoved := uint64(1 << 62)
	for n, r := range ref {
		if r.cost.Cmp(balance) > 0 || r.gas > gasLimit {
			if n < lowestRemoved {
				lowestRemoved = n
			}
		}
	}
	for _, tx := range left {
		r := ref[tx.Nonce()]
		v.Assert(r != nil && r.tx == tx, "C17.list.unknown-or-replaced-tx-offered")
		if r != nil {
			v.Assert(r.cost.Cmp(balance) <= 0, "C17.list.unaffordable-tx-offered")
			v.Assert(r.gas <= gasLimit, "C17.list.tx-above-gas-limit-offered")
			v.Assert(tx.Nonce() < lowestRemoved, "C17.list.tx-after-a-gap-offered")
		}
	}
	// nothing affordable below the first removed nonce is lost
	for n, r := range ref {
		if n < lowestRemoved {
			found := false
			for _, tx := range left {
				if tx == r.tx {
					found = true
				}
			}
			v.Assert(found, "C17.list.executable-tx-dropped")
		}
	}
	v.Assert(len(left)+len(removed)+len(invalids) == len(ref), "C17.list.tx-lost-or-duplicated")
}
