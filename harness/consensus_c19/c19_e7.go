package consensus

import (
	"time"

	cstypes "github.com/kardiachain/go-kardia/consensus/types"
	"github.com/kardiachain/go-kardia/kai/state/cstate"
	kproto "github.com/kardiachain/go-kardia/proto/kardiachain/types"
	"github.com/kardiachain/go-kardia/types"
	"github.com/kardiachain/go-kardia/types/evidence"
)

// verifEvRec stands for the node's evidence pool: it records what consensus hands over.
type verifEvRec struct{ got []types.Evidence }

func (p *verifEvRec) AddEvidenceFromConsensus(ev types.Evidence) error {
	p.got = append(p.got, ev)
	return nil
}

// VerifC19_E7: "when a correct node observes a validator's conflicting votes, the evidence it
// produces is accepted by every other correct node". The node (real tryAddVote / addVote /
// VoteSet.AddVote) sees two genuine, differently-targeted votes of validator k, either for the
// height it is working on or - while it waits out the commit timeout - as a late precommit for
// the height it has just committed. Whatever it hands to its evidence pool is then offered to
// another correct node's real Pool.verify, whose chain has the block times and validator sets of
// both heights. The validator set may have changed between the two heights (k's power, or k
// leaving the set).
func VerifC19_E7(v *VerifV) {
	verifV = v
	n := verifMkNode(v)
	cs := n.cs
	cs.blockOperations = verifBlockOps{}
	rec := &verifEvRec{}
	cs.evpool = rec

	k := 1 + v.Choice("equivocator", 3)
	late := v.Choice("vote-height", 2) == 1 // 0: height H (current), 1: late precommit for H-1
	changed := v.Choice("set-change", 3)    // 0 none, 1 k had another power at H-1, 2 k is no longer a validator at H
	v.Assume(late || changed != 2)

	mkSet := func(skip int, powerOfK int64) *types.ValidatorSet {
		var vals []*types.Validator
		for i := 0; i < 4; i++ {
			if i == skip {
				continue
			}
			p := int64(1)
			if i == k {
				p = powerOfK
			}
			vals = append(vals, &types.Validator{Address: types.VerifAddr(i), VotingPower: p})
		}
		return &types.ValidatorSet{Validators: vals}
	}
	setPrev, setCur := mkSet(-1, 1), mkSet(-1, 1)
	switch changed {
	case 1:
		setPrev = mkSet(-1, 2)
	case 2:
		setCur = mkSet(k, 1)
	}
	// block H-1 was created 3 s before its precommits were signed; block H's time is the
	// median of those precommits' timestamps (cstate.validateBlock), which all carry VerifTS
	tPrev, tCur := types.VerifTS().Add(-3*time.Second), types.VerifTS()
	cs.state.LastBlockTime = tPrev
	cs.state.LastValidators, cs.LastValidators = setPrev, setPrev
	cs.state.Validators, cs.Validators = setCur, setCur
	cs.Votes = cstypes.NewHeightVoteSet(verifNopLogger{}, types.VerifChain, verifH, setCur)
	cs.Round = 1
	cs.Votes.SetRound(2)
	cs.LastCommit = types.NewVoteSet(types.VerifChain, verifH-1, 1, kproto.PrecommitType, setPrev)
	for i := 0; i < 4; i++ {
		pc, g := types.VerifSignedVote(i, uint32(i), kproto.PrecommitType, verifH-1, 1, types.VerifBlockID(1))
		v.Assume(g)
		ok, err := cs.LastCommit.AddVote(pc)
		v.Assert(ok && err == nil, "C19.E7.setup-last-commit")
	}

	other := types.VerifBlockID(2)
	if v.Choice("second-target", 2) == 1 {
		other = types.BlockID{}
	}
	var evH uint64
	if late {
		cs.Step = cstypes.RoundStepNewHeight
		evH = verifH - 1
		second, g := types.VerifSignedVote(k, uint32(k), kproto.PrecommitType, evH, 1, other)
		v.Assume(g)
		_, _ = cs.tryAddVote(second, "peer")
		v.Cover("late-precommit")
	} else {
		cs.Step = cstypes.RoundStepPrevote
		evH = verifH
		t := kproto.PrevoteType
		if v.Choice("type", 2) == 1 {
			t = kproto.PrecommitType
		}
		first, g1 := types.VerifSignedVote(k, uint32(k), t, evH, 1, types.VerifBlockID(1))
		second, g2 := types.VerifSignedVote(k, uint32(k), t, evH, 1, other)
		v.Assume(g1 && g2)
		added, err := cs.tryAddVote(first, "peer")
		v.Assert(added && err == nil, "C19.E7.first-vote-not-added")
		_, _ = cs.tryAddVote(second, "peer")
		v.Cover("current-height")
	}

	v.Assert(len(rec.got) == 1, "C19.consensus.observed-conflict-did-not-produce-one-piece-of-evidence")
	if len(rec.got) != 1 {
		return
	}
	dve, _ := rec.got[0].(*types.DuplicateVoteEvidence)
	v.Assert(dve != nil, "C19.consensus.nil-evidence-handed-to-the-pool")
	if dve == nil {
		return
	}
	v.Assert(dve.Height() == evH, "C19.consensus.evidence-height")
	// another correct node, a few blocks later
	times := map[uint64]time.Time{verifH - 1: tPrev, verifH: tCur}
	sets := map[uint64]*types.ValidatorSet{verifH - 1: setPrev, verifH: setCur}
	st := cstate.LatestBlockState{ChainID: types.VerifChain, LastBlockHeight: verifH + 1, LastBlockTime: tCur.Add(2 * time.Second)}
	st.ConsensusParams.Evidence.MaxAgeNumBlocks = 100
	st.ConsensusParams.Evidence.MaxAgeDuration = time.Hour
	err := evidence.VerifPeerVerify(dve, times, sets, st)
	v.Assert(err == nil, "C19.consensus.produced-evidence-refused-by-a-correct-node")
	if err == nil {
		v.Cover("accepted-by-peer")
	}
	if changed != 0 {
		v.Cover("validator-set-changed")
	}
}
