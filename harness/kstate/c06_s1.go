package state

import (
	"math/big"

	"github.com/kardiachain/go-kardia/kai/state/snapshot"
	cmn "github.com/kardiachain/go-kardia/lib/common"
	"github.com/kardiachain/go-kardia/types"
)

// ---- reference model of the snapshot tree -----------------------------------------------------
//
// The flat view of the state at a root: what the diff layers stacked on the disk layer answer.
// Update(root, parent, destructs, accounts, storage) = copy the parent's view, drop every
// destructed account with all its storage, then apply the account and storage records
// (empty record = deleted). (*snapshot.Tree).Snapshot/Update/Cap are replaced by this model.

type verifFlat struct {
	root     cmn.Hash
	accounts map[cmn.Hash][]byte
	storage  map[cmn.Hash]map[cmn.Hash][]byte
}

var verifLayers map[cmn.Hash]*verifFlat

func (f *verifFlat) Root() cmn.Hash { return f.root }
func (f *verifFlat) Account(h cmn.Hash) (*types.SlimAccount, error) {
	data := f.accounts[h]
	if len(data) == 0 {
		return nil, nil
	}
	sa := verifSlims[data[1]] // decode the token
	sa.Balance = new(big.Int).Set(sa.Balance)
	sa.Root, sa.CodeHash = cmn.CopyBytes(sa.Root), cmn.CopyBytes(sa.CodeHash)
	return &sa, nil
}
func (f *verifFlat) AccountRLP(h cmn.Hash) ([]byte, error) { return f.accounts[h], nil }
func (f *verifFlat) Storage(a, k cmn.Hash) ([]byte, error) { return f.storage[a][k], nil }

func verifStubTreeSnapshot(_ *snapshot.Tree, root cmn.Hash) snapshot.Snapshot {
	if f := verifLayers[root]; f != nil {
		return f
	}
	return nil
}
func verifStubTreeCap(_ *snapshot.Tree, _ cmn.Hash, _ int) error { return nil }
func verifStubTreeUpdate(_ *snapshot.Tree, root, parent cmn.Hash, destructs map[cmn.Hash]struct{},
	accounts map[cmn.Hash][]byte, storage map[cmn.Hash]map[cmn.Hash][]byte) error {
	p := verifLayers[parent]
	if p == nil {
		verifV.Fail("C06.snapshot.update-on-unknown-parent")
		return nil
	}
	f := &verifFlat{root: root, accounts: map[cmn.Hash][]byte{}, storage: map[cmn.Hash]map[cmn.Hash][]byte{}}
	for h, d := range p.accounts {
		f.accounts[h] = d
	}
	for h, m := range p.storage {
		c := map[cmn.Hash][]byte{}
		for k, x := range m {
			c[k] = x
		}
		f.storage[h] = c
	}
	for h := range destructs {
		delete(f.accounts, h)
		delete(f.storage, h)
	}
	for h, d := range accounts {
		if len(d) == 0 {
			delete(f.accounts, h)
		} else {
			f.accounts[h] = d
		}
	}
	for h, m := range storage {
		if f.storage[h] == nil {
			f.storage[h] = map[cmn.Hash][]byte{}
		}
		for k, x := range m {
			if len(x) == 0 {
				delete(f.storage[h], k)
			} else {
				f.storage[h][k] = x
			}
		}
	}
	verifLayers[root] = f
	return nil
}

// verifGenerate builds the flat view of a committed root from the trie, as the snapshot generator does.
func verifGenerate(db *verifDB, root cmn.Hash) {
	f := &verifFlat{root: root, accounts: map[cmn.Hash][]byte{}, storage: map[cmn.Hash]map[cmn.Hash][]byte{}}
	if t := db.tries[root]; t != nil {
		for _, e := range t.kv {
			ah := verifStubKeccak256Hash(e.k)
			f.accounts[ah] = types.SlimAccountRLP(*e.a)
			if st := db.tries[e.a.Root]; st != nil {
				f.storage[ah] = map[cmn.Hash][]byte{}
				for _, se := range st.kv {
					enc, _ := verifStubRlpEncode(se.v)
					f.storage[ah][verifStubKeccak256Hash(se.k)] = enc
				}
			}
		}
	}
	verifLayers[root] = f
}

// kinds exercising destruction / resurrection / reverts within a block
var verifDestructKinds = []int{opAddBalance, opSetState, opCreate, opSuicide, opSnapshot, opRevert, opFinalise}

// VerifC06_S1: executing a block gives the same result whether or not the node keeps state
// snapshots. Two nodes start from the same committed parent state, one reading through the
// trie only (snaps == nil), one through a snapshot layer. The same K operations (writes,
// snapshots and reverts as failing transactions / call frames make them, Finalise(true) as the
// transaction boundary) run on both; everything either node can observe during the block, the
// committed trie content, and everything observable from the committed root in the next block
// must be the same on both.
func VerifC06_S1(v *VerifV) {
	verifV = v
	verifLayers = map[cmn.Hash]*verifFlat{}
	verifSlims = nil
	na, ns, nv, K := v.Param("addrs"), v.Param("slots"), v.Param("values"), v.Param("K")
	kinds := verifDestructKinds
	if v.Param("core") == 0 {
		kinds = verifAllKinds
	}
	pre := verifPre{tier: 3}
	if v.Bool("parent-has-account") {
		for i := 0; i < na; i++ {
			pre.bal = append(pre.bal, v.Big("pre-balance", 64))
			pre.nonce = append(pre.nonce, v.U64("pre-nonce"))
			pre.code = append(pre.code, v.Bool("pre-code"))
		}
		v.Cover("parent-has-account")
	} else {
		pre.tier = 0
	}
	dbP, dbS := verifNewDB(), verifNewDB()
	p := verifBuild(v, pre, dbP, na)
	rootS := cmn.Hash{}
	if pre.tier == 3 {
		tmp := verifBuild(v, pre, dbS, na)
		rootS = tmp.originalRoot
	}
	verifGenerate(dbS, rootS)
	tree := new(snapshot.Tree)
	s, err := New(rootS, dbS, tree)
	v.Assert(err == nil && s != nil && s.snap != nil, "C06.snapshot.not-attached")

	type snap struct{ p, s int }
	var live []snap
	live = append(live, snap{p.Snapshot(), s.Snapshot()})
	for step := 0; step < K; step++ {
		op := verifPickOp(v, kinds, na, ns, nv)
		switch op.kind {
		case opSnapshot:
			live = append(live, snap{p.Snapshot(), s.Snapshot()})
		case opRevert:
			if len(live) == 0 {
				return
			}
			i := v.Choice("revert-to", len(live))
			p.RevertToSnapshot(live[i].p)
			s.RevertToSnapshot(live[i].s)
			live = live[:i]
			v.Cover("reverted")
		case opFinalise, opRoot:
			op.flag = true
			verifApply(p, op)
			verifApply(s, op)
			live = append(live[:0], snap{p.Snapshot(), s.Snapshot()}) // next transaction
			v.Cover("tx-boundary")
		default:
			okP := verifApply(p, op)
			okS := verifApply(s, op)
			v.Assert(okP == okS, "C06.snapshot.refund-differs")
			if !okP {
				return
			}
		}
	}
	verifSameObs(v, verifObserve(s, na, ns), verifObserve(p, na, ns), "C06.snapshot.in-block", ns)
	rp, errP := p.Commit(true)
	rs, errS := s.Commit(true)
	v.Assert(errP == nil && errS == nil, "C06.commit.error")
	tp, ts := dbP.tries[rp], dbS.tries[rs]
	if tp == nil {
		tp = &verifTrie{}
	}
	if ts == nil {
		ts = &verifTrie{}
	}
	verifSameTrie(v, dbS, dbP, ts, tp, ns)
	// next block
	np, err1 := New(rp, dbP, nil)
	nsn, err2 := New(rs, dbS, tree)
	v.Assert(err1 == nil && err2 == nil && np != nil && nsn != nil, "C06.snapshot.cannot-open-next")
	v.Assert(nsn.snap != nil || rs == rootS, "C06.snapshot.layer-missing-for-committed-root")
	verifSameObs(v, verifObserve(nsn, na, ns), verifObserve(np, na, ns), "C06.snapshot.next-block", ns)
	v.Assert(p.Error() == nil && s.Error() == nil && np.Error() == nil && nsn.Error() == nil, "C06.db-error")
}
