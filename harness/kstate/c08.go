package state

import (
	"bytes"
	"hash"
	"math/big"

	"github.com/kardiachain/go-kardia/kai/kaidb"
	"github.com/kardiachain/go-kardia/kai/kaidb/memorydb"
	"github.com/kardiachain/go-kardia/kai/rawdb"
	cmn "github.com/kardiachain/go-kardia/lib/common"
	"github.com/kardiachain/go-kardia/lib/crypto"
	"github.com/kardiachain/go-kardia/trie"
	"github.com/kardiachain/go-kardia/trie/trienode"
	"github.com/kardiachain/go-kardia/types"
)

var verifV *VerifV

// ---- stubs -------------------------------------------------------------------------------

// Keccak: injective uninterpreted function (fixed pseudo-random constant on concrete input).
func verifStubKeccak256(data ...[]byte) []byte {
	var all []byte
	for _, d := range data {
		all = append(all, d...)
	}
	return verifV.UF("keccak256", true, 32, all)
}
func verifStubKeccak256Hash(data ...[]byte) (h cmn.Hash) {
	copy(h[:], verifStubKeccak256(data...))
	return h
}

type verifKeccakState struct{ hash.Hash }

func (verifKeccakState) Read([]byte) (int, error) { panic("verif: KeccakState only used with snapshots") }

// crypto.NewKeccakState: the hasher is only used on the snapshot-layer paths (snaps == nil here).
func verifStubNewKeccakState() crypto.KeccakState { return verifKeccakState{} }

// rlp.EncodeToBytes is reached only for the snapshot-layer copy of a storage value (a byte string
// of at most 32 bytes; unused here because snaps == nil); the reflective encoder is not modelled.
func verifStubRlpEncode(val interface{}) ([]byte, error) {
	if sa, ok := val.(types.SlimAccount); ok {
		// slim account record of the snapshot layer: a token standing for the (possibly symbolic) fields
		verifSlims = append(verifSlims, sa)
		return []byte{0xF5, byte(len(verifSlims) - 1)}, nil
	}
	b, ok := val.([]byte)
	if !ok || len(b) > 55 {
		panic("verif: rlp.EncodeToBytes stub only handles short byte strings and slim accounts")
	}
	if len(b) == 1 && b[0] < 0x80 {
		return []byte{b[0]}, nil
	}
	return append([]byte{0x80 + byte(len(b))}, b...), nil
}

var verifSlims []types.SlimAccount

// crypto.HashData (Keccak through a reusable hasher).
func verifStubHashData(_ crypto.KeccakState, data []byte) cmn.Hash { return verifStubKeccak256Hash(data) }

// ---- model of the trie / node database behind state.Database --------------------------------
//
// The Merkle trie itself is the subject of C07. Here a trie is its content (an insertion-ordered
// association list), and the node database is content-addressed: Hash()/Commit() register the
// content under its root, OpenTrie/OpenStorageTrie look a root up. The root of a storage trie is
// an injective function of its sorted content; the account trie root is a fresh id per content
// (account contents are compared field by field by the harnesses, not through the root).

type verifKV struct {
	k []byte
	v []byte              // storage value
	a *types.StateAccount // account value
}

type verifTrie struct {
	db      *verifDB
	account bool
	kv      []verifKV
}

func (t *verifTrie) find(k []byte) int {
	for i := range t.kv {
		if bytes.Equal(t.kv[i].k, k) {
			return i
		}
	}
	return -1
}
func (t *verifTrie) GetKey(k []byte) []byte { return k }
func (t *verifTrie) GetStorage(_ cmn.Address, key []byte) ([]byte, error) {
	if i := t.find(key); i >= 0 {
		return t.kv[i].v, nil
	}
	return nil, nil
}
func (t *verifTrie) GetAccount(a cmn.Address) (*types.StateAccount, error) {
	if i := t.find(a[:]); i >= 0 {
		acc := *t.kv[i].a
		acc.Balance = new(big.Int).Set(acc.Balance) // decoding yields a fresh big.Int
		acc.CodeHash = cmn.CopyBytes(acc.CodeHash)
		return &acc, nil
	}
	return nil, nil
}
func (t *verifTrie) UpdateStorage(_ cmn.Address, key, value []byte) error {
	value = cmn.CopyBytes(value)
	if i := t.find(key); i >= 0 {
		t.kv[i].v = value
	} else {
		t.kv = append(t.kv, verifKV{k: cmn.CopyBytes(key), v: value})
	}
	return nil
}
func (t *verifTrie) UpdateAccount(a cmn.Address, acc *types.StateAccount) error {
	c := *acc // encoding serialises the values
	c.Balance = new(big.Int).Set(acc.Balance)
	c.CodeHash = cmn.CopyBytes(acc.CodeHash)
	if i := t.find(a[:]); i >= 0 {
		t.kv[i].a = &c
	} else {
		t.kv = append(t.kv, verifKV{k: cmn.CopyBytes(a[:]), a: &c})
	}
	return nil
}
func (t *verifTrie) del(k []byte) {
	if i := t.find(k); i >= 0 {
		t.kv = append(t.kv[:i:i], t.kv[i+1:]...)
	}
}
func (t *verifTrie) DeleteStorage(_ cmn.Address, key []byte) error { t.del(key); return nil }
func (t *verifTrie) DeleteAccount(a cmn.Address) error              { t.del(a[:]); return nil }

func (t *verifTrie) sorted() []verifKV {
	out := append([]verifKV(nil), t.kv...)
	for i := 1; i < len(out); i++ {
		for j := i; j > 0 && bytes.Compare(out[j-1].k, out[j].k) > 0; j-- {
			out[j-1], out[j] = out[j], out[j-1]
		}
	}
	return out
}
func (t *verifTrie) Hash() cmn.Hash {
	if len(t.kv) == 0 {
		return types.EmptyRootHash
	}
	var root cmn.Hash
	if t.account {
		t.db.nextRoot++
		root = cmn.Hash{0xAC, byte(t.db.nextRoot >> 8), byte(t.db.nextRoot)}
	} else {
		var ser []byte
		for _, e := range t.sorted() {
			ser = append(ser, byte(len(e.k)))
			ser = append(ser, e.k...)
			ser = append(ser, byte(len(e.v)))
			ser = append(ser, e.v...)
		}
		root = verifStubKeccak256Hash(ser)
	}
	t.db.tries[root] = t.copy()
	return root
}
func (t *verifTrie) Commit(bool) (cmn.Hash, *trienode.NodeSet) { return t.Hash(), nil }
func (t *verifTrie) NodeIterator([]byte) trie.NodeIterator {
	panic("verif: trie iteration not modelled")
}
func (t *verifTrie) Prove([]byte, uint, kaidb.KeyValueWriter) error {
	panic("verif: proofs not modelled")
}
func (t *verifTrie) copy() *verifTrie {
	c := &verifTrie{db: t.db, account: t.account, kv: make([]verifKV, len(t.kv))}
	copy(c.kv, t.kv) // entries are never mutated in place
	return c
}

type verifDB struct {
	disk     kaidb.KeyValueStore
	tries    map[cmn.Hash]*verifTrie
	nextRoot int
}

func verifNewDB() *verifDB {
	return &verifDB{disk: memorydb.New(), tries: map[cmn.Hash]*verifTrie{}}
}
func (d *verifDB) open(root cmn.Hash, account bool) (Trie, error) {
	if root == (cmn.Hash{}) || root == types.EmptyRootHash {
		return &verifTrie{db: d, account: account}, nil
	}
	t := d.tries[root]
	if t == nil {
		verifV.Fail("C08.model.unknown-root-opened")
		return &verifTrie{db: d, account: account}, nil
	}
	return t.copy(), nil
}
func (d *verifDB) OpenTrie(root cmn.Hash) (Trie, error) { return d.open(root, true) }
func (d *verifDB) OpenStorageTrie(_ cmn.Hash, _ cmn.Hash, root cmn.Hash) (Trie, error) {
	return d.open(root, false)
}
func (d *verifDB) CopyTrie(t Trie) Trie { return t.(*verifTrie).copy() }
func (d *verifDB) ContractCode(_ cmn.Hash, codeHash cmn.Hash) ([]byte, error) {
	code := rawdb.ReadCode(d.disk, codeHash)
	if len(code) == 0 {
		verifV.Fail("C08.readback.code-of-live-account-not-in-database")
	}
	return code, nil
}
func (d *verifDB) ContractCodeSize(a cmn.Hash, codeHash cmn.Hash) (int, error) {
	code, err := d.ContractCode(a, codeHash)
	return len(code), err
}
func (d *verifDB) DiskDB() kaidb.KeyValueStore { return d.disk }
func (d *verifDB) TrieDB() *trie.Database     { return new(trie.Database) } // Update is stubbed: nodes are not modelled

// ---- universes and observables ---------------------------------------------------------------

func verifAddr(i int) cmn.Address { return cmn.Address{0xA0, byte(i + 1)} }
func verifSlot(i int) cmn.Hash    { return cmn.Hash{0x50, byte(i + 1)} }
func verifVal(i int) cmn.Hash {
	if i == 0 {
		return cmn.Hash{}
	}
	return cmn.Hash{31: byte(i)}
}

var verifCodes = [][]byte{{0x60, 0x00}, {0x5b}}

type verifAcctObs struct {
	exist, empty, suicided, inAL bool
	bal                          *big.Int
	nonce                        uint64
	code                         []byte
	codeHash                     cmn.Hash
	codeSize                     int
	st, cst, tst                 [2]cmn.Hash
	slotAL                       [2]bool
}

type verifObs struct {
	acct      []verifAcctObs
	refund    uint64
	nlogs     int
	logSize   uint
	preimages int
}

func verifObserve(s *StateDB, na, ns int) verifObs {
	o := verifObs{refund: s.GetRefund(), nlogs: len(s.Logs()), logSize: s.logSize, preimages: len(s.Preimages())}
	for i := 0; i < na; i++ {
		a := verifAddr(i)
		ao := verifAcctObs{exist: s.Exist(a), empty: s.Empty(a), suicided: s.HasSuicided(a), inAL: s.AddressInAccessList(a),
			bal: new(big.Int).Set(s.GetBalance(a)), nonce: s.GetNonce(a), code: cmn.CopyBytes(s.GetCode(a)),
			codeHash: s.GetCodeHash(a), codeSize: s.GetCodeSize(a)}
		for k := 0; k < ns; k++ {
			ao.st[k] = s.GetState(a, verifSlot(k))
			ao.cst[k] = s.GetCommittedState(a, verifSlot(k))
			ao.tst[k] = s.GetTransientState(a, verifSlot(k))
			_, ao.slotAL[k] = s.SlotInAccessList(a, verifSlot(k))
		}
		o.acct = append(o.acct, ao)
	}
	return o
}

// verifSameObs asserts got == want, one label per observable kind (prefix distinguishes the harness).
func verifSameObs(v *VerifV, got, want verifObs, p string, ns int) {
	v.Assert(got.refund == want.refund, p+".refund")
	v.Assert(got.nlogs == want.nlogs && got.logSize == want.logSize, p+".logs")
	v.Assert(got.preimages == want.preimages, p+".preimages")
	for i := range want.acct {
		g, w := got.acct[i], want.acct[i]
		v.Assert(g.exist == w.exist, p+".existence")
		v.Assert(g.empty == w.empty, p+".emptiness")
		v.Assert(g.suicided == w.suicided, p+".self-destruct-mark")
		v.Assert(g.bal.Cmp(w.bal) == 0, p+".balance")
		v.Assert(g.nonce == w.nonce, p+".nonce")
		v.Assert(bytes.Equal(g.code, w.code) && g.codeHash == w.codeHash && g.codeSize == w.codeSize, p+".code")
		v.Assert(g.inAL == w.inAL, p+".access-list-address")
		for k := 0; k < ns; k++ {
			v.Assert(g.st[k] == w.st[k], p+".storage")
			v.Assert(g.cst[k] == w.cst[k], p+".committed-storage")
			v.Assert(g.tst[k] == w.tst[k], p+".transient-storage")
			v.Assert(g.slotAL[k] == w.slotAL[k], p+".access-list-slot")
		}
	}
}

// ---- operations --------------------------------------------------------------------------------

type verifOp struct {
	kind, a, k, val int
	amt             *big.Int
	n               uint64
	flag            bool
}

const (
	opAddBalance = iota
	opSubBalance
	opSetBalance
	opSetNonce
	opSetCode
	opSetState
	opCreate
	opSuicide
	opAddRefund
	opSubRefund
	opAddLog
	opALAddr
	opALSlot
	opTransient
	opPreimage
	opSnapshot // the ones below are not state writes
	opRevert
	opFinalise
	opRoot
	opKinds
)

// verifPickOp draws one operation over the universes (na addresses, ns slots, nv storage values).
func verifPickOp(v *VerifV, kinds []int, na, ns, nv int) verifOp {
	op := verifOp{kind: kinds[v.Choice("op", len(kinds))]}
	switch op.kind {
	case opAddBalance, opSubBalance, opSetBalance:
		op.a = v.Choice("addr", na)
		op.amt = v.Big("amount", 64)
	case opSetNonce:
		op.a = v.Choice("addr", na)
		op.n = v.U64("nonce")
	case opSetCode:
		op.a = v.Choice("addr", na)
		op.val = v.Choice("code", len(verifCodes))
	case opSetState, opTransient:
		op.a = v.Choice("addr", na)
		op.k = v.Choice("slot", ns)
		op.val = v.Choice("value", nv)
	case opCreate, opSuicide, opALAddr:
		op.a = v.Choice("addr", na)
	case opALSlot:
		op.a = v.Choice("addr", na)
		op.k = v.Choice("slot", ns)
	case opAddRefund, opSubRefund:
		op.n = v.U64("gas")
		v.Assume(op.n < 1<<32)
	case opFinalise, opRoot:
		op.flag = v.Bool("delete-empty")
	}
	return op
}

// verifApply applies a state write to s. It returns false when the operation's own precondition
// does not hold in s (SubRefund below zero panics by contract).
func verifApply(s *StateDB, op verifOp) bool {
	a := verifAddr(op.a)
	switch op.kind {
	case opAddBalance:
		s.AddBalance(a, op.amt)
	case opSubBalance:
		s.SubBalance(a, op.amt)
	case opSetBalance:
		s.SetBalance(a, op.amt)
	case opSetNonce:
		s.SetNonce(a, op.n)
	case opSetCode:
		s.SetCode(a, verifCodes[op.val])
	case opSetState:
		s.SetState(a, verifSlot(op.k), verifVal(op.val))
	case opCreate:
		s.CreateAccount(a)
	case opSuicide:
		s.Suicide(a)
	case opAddRefund:
		s.AddRefund(op.n)
	case opSubRefund:
		if op.n > s.GetRefund() {
			return false
		}
		s.SubRefund(op.n)
	case opAddLog:
		s.AddLog(&types.Log{Address: a})
	case opALAddr:
		s.AddAddressToAccessList(a)
	case opALSlot:
		s.AddSlotToAccessList(a, verifSlot(op.k))
	case opTransient:
		s.SetTransientState(a, verifSlot(op.k), verifVal(op.val))
	case opPreimage:
		s.AddPreimage(cmn.Hash{0x77}, []byte{1})
	case opFinalise:
		s.Finalise(op.flag)
	case opRoot:
		s.IntermediateRoot(op.flag)
	}
	return true
}

// verifPre is a drawn pre-state: the tier the accounts of the universe live in before the history
// under test starts (absent; created in the current journal; finalised = pending tier; flushed to
// the trie and loaded back by a fresh StateDB) and their symbolic balance / nonce (so "empty" is
// symbolic too).
type verifPre struct {
	tier  int
	bal   []*big.Int
	nonce []uint64
	code  []bool
}

func verifDrawPre(v *VerifV, na int) verifPre {
	p := verifPre{tier: v.Choice("pre-state", 4)}
	if p.tier == 0 {
		return p
	}
	for i := 0; i < na; i++ {
		p.bal = append(p.bal, v.Big("pre-balance", 64))
		p.nonce = append(p.nonce, v.U64("pre-nonce"))
		p.code = append(p.code, v.Bool("pre-code"))
	}
	return p
}

func verifBuild(v *VerifV, p verifPre, db *verifDB, na int) *StateDB {
	s, _ := New(cmn.Hash{}, db, nil)
	if p.tier == 0 {
		v.Cover("pre-absent")
		return s
	}
	for i := 0; i < na; i++ {
		a := verifAddr(i)
		s.AddBalance(a, p.bal[i])
		s.SetNonce(a, p.nonce[i])
		s.SetState(a, verifSlot(0), verifVal(1))
		if p.code[i] {
			s.SetCode(a, verifCodes[0])
		}
	}
	switch p.tier {
	case 1:
		v.Cover("pre-journalled")
	case 2:
		v.Cover("pre-finalised")
		s.Finalise(false)
	case 3:
		v.Cover("pre-in-trie")
		root, err := s.Commit(false)
		v.Assert(err == nil, "C08.commit.error")
		s, err = New(root, db, nil)
		v.Assert(err == nil && s != nil, "C08.readback.cannot-open-committed-root")
	}
	return s
}

var verifAllKinds = func() []int {
	var k []int
	for i := 0; i < opKinds; i++ {
		k = append(k, i)
	}
	return k
}()

// kinds that stress object replacement / deletion and the storage tiers
var verifCoreKinds = []int{opAddBalance, opSetState, opCreate, opSuicide, opSetCode, opSnapshot, opRevert, opFinalise}

func verifKinds(v *VerifV) []int {
	if v.Param("core") == 1 {
		return verifCoreKinds
	}
	return verifAllKinds
}

// VerifC08_J1: an arbitrary history of K operations (writes, nested Snapshot, RevertToSnapshot to
// any live snapshot, Finalise/IntermediateRoot) from an arbitrary pre-state tier; every revert
// must restore every observable recorded when that snapshot was taken; at the end the state is
// reverted to the outermost live snapshot.
func VerifC08_J1(v *VerifV) {
	verifV = v
	na, ns, nv, K := v.Param("addrs"), v.Param("slots"), v.Param("values"), v.Param("K")
	kinds := verifKinds(v)
	db := verifNewDB()
	s := verifBuild(v, verifDrawPre(v, na), db, na)
	type snap struct {
		id  int
		obs verifObs
	}
	var live []snap
	take := func() { o := verifObserve(s, na, ns); live = append(live, snap{s.Snapshot(), o}) }
	revert := func(i int) {
		s.RevertToSnapshot(live[i].id)
		verifSameObs(v, verifObserve(s, na, ns), live[i].obs, "C08.revert", ns)
		live = live[:i]
	}
	take()
	for step := 0; step < K; step++ {
		op := verifPickOp(v, kinds, na, ns, nv)
		switch op.kind {
		case opSnapshot:
			take()
		case opRevert:
			if len(live) == 0 {
				return
			}
			i := v.Choice("revert-to", len(live))
			if i > 0 {
				v.Cover("nested-revert")
			}
			revert(i)
		case opFinalise, opRoot:
			verifApply(s, op)
			live = live[:0] // reverting across a finalise is not allowed
			take()          // the next transaction starts with its own snapshot
		default:
			if !verifApply(s, op) {
				return
			}
		}
	}
	if len(live) > 0 {
		revert(0)
		v.Cover("reverted-to-outermost")
	}
	v.Assert(s.Error() == nil, "C08.db-error")
}

func verifSameTrie(v *VerifV, db1, db2 *verifDB, t1, t2 *verifTrie, ns int) {
	v.Assert(len(t1.kv) == len(t2.kv), "C08.root.account-set-differs")
	for _, e := range t1.kv {
		j := t2.find(e.k)
		v.Assert(j >= 0, "C08.root.account-set-differs")
		if j < 0 {
			continue
		}
		x, y := e.a, t2.kv[j].a
		v.Assert(x.Nonce == y.Nonce, "C08.root.nonce-differs")
		v.Assert(x.Balance.Cmp(y.Balance) == 0, "C08.root.balance-differs")
		v.Assert(bytes.Equal(x.CodeHash, y.CodeHash), "C08.root.code-differs")
		v.Assert(x.Root == y.Root, "C08.root.storage-root-differs")
	}
}

// VerifC08_J2: the same kind of history on state s1 (with reverts), and only its surviving writes
// (plus the finalisations) on a second state s2 built from an identical pre-state; after
// IntermediateRoot both tries must have the same content (account set, nonce, balance, code hash,
// storage root = injective function of storage content), and a fresh StateDB opened on s1's root
// must read back what s1 itself reports.
func VerifC08_J2(v *VerifV) {
	verifV = v
	na, ns, nv, K := v.Param("addrs"), v.Param("slots"), v.Param("values"), v.Param("K")
	kinds := verifKinds(v)
	db1 := verifNewDB()
	pre := verifDrawPre(v, na)
	s1 := verifBuild(v, pre, db1, na)
	type rec struct {
		op   verifOp
		dead bool
	}
	var hist []rec
	type snap struct{ id, at int }
	var live []snap
	live = append(live, snap{s1.Snapshot(), 0})
	for step := 0; step < K; step++ {
		op := verifPickOp(v, kinds, na, ns, nv)
		switch op.kind {
		case opSnapshot:
			live = append(live, snap{s1.Snapshot(), len(hist)})
		case opRevert:
			if len(live) == 0 {
				return
			}
			i := v.Choice("revert-to", len(live))
			s1.RevertToSnapshot(live[i].id)
			for j := live[i].at; j < len(hist); j++ {
				hist[j].dead = true
			}
			live = live[:i]
			v.Cover("reverted")
		case opFinalise, opRoot:
			verifApply(s1, op)
			hist = append(hist, rec{op: op})
			live = live[:0]
		default:
			if !verifApply(s1, op) {
				return
			}
			hist = append(hist, rec{op: op})
		}
	}
	del := v.Bool("delete-empty")
	s1.IntermediateRoot(del)
	t1 := s1.trie.(*verifTrie)

	// replay on an identical pre-state
	db2 := verifNewDB()
	s2 := verifBuild(v, pre, db2, na)
	for _, r := range hist {
		if !r.dead {
			v.Assert(verifApply(s2, r.op), "C08.root.surviving-op-not-applicable")
		}
	}
	s2.IntermediateRoot(del)
	verifSameTrie(v, db1, db2, t1, s2.trie.(*verifTrie), ns)
	v.Assert(s1.Error() == nil && s2.Error() == nil, "C08.db-error")
}

// VerifC08_J3: a copy is independent of the original: K writes applied to one side (chosen) leave
// every observable of the other side unchanged, whatever tier the accounts were in at copy time.
func VerifC08_J3(v *VerifV) {
	verifV = v
	na, ns, nv, K := v.Param("addrs"), v.Param("slots"), v.Param("values"), v.Param("K")
	kinds := verifKinds(v)
	db := verifNewDB()
	s := verifBuild(v, verifDrawPre(v, na), db, na)
	if v.Bool("touch-before-copy") { // objects cached / journalled in the original at copy time
		verifApply(s, verifPickOp(v, verifWriteKinds(kinds), na, ns, nv))
	}
	c := s.Copy()
	mut, other := s, c
	if v.Bool("mutate-copy") {
		mut, other = c, s
		v.Cover("copy-mutated")
	} else {
		v.Cover("original-mutated")
	}
	before := verifObserve(other, na, ns)
	_ = verifObserve(mut, na, ns) // both sides have been read (caches filled) before the writes
	for step := 0; step < K; step++ {
		op := verifPickOp(v, verifWriteKinds(kinds), na, ns, nv)
		if !verifApply(mut, op) {
			return
		}
	}
	verifSameObs(v, verifObserve(other, na, ns), before, "C08.copy", ns)
}

// writes plus finalisation, without snapshot/revert
func verifWriteKinds(kinds []int) []int {
	var out []int
	for _, k := range kinds {
		if k != opSnapshot && k != opRevert {
			out = append(out, k)
		}
	}
	return out
}

// VerifC08_J4: read-back: after K writes and Commit, a fresh StateDB opened on the committed root
// reports, for every account and slot of the universe, what the committing StateDB reports.
func VerifC08_J4(v *VerifV) {
	verifV = v
	na, ns, nv, K := v.Param("addrs"), v.Param("slots"), v.Param("values"), v.Param("K")
	kinds := verifKinds(v)
	db := verifNewDB()
	s := verifBuild(v, verifDrawPre(v, na), db, na)
	for step := 0; step < K; step++ {
		op := verifPickOp(v, verifWriteKinds(kinds), na, ns, nv)
		if !verifApply(s, op) {
			return
		}
	}
	root, err := s.Commit(v.Bool("delete-empty"))
	v.Assert(err == nil, "C08.commit.error")
	want := verifObserve(s, na, ns)
	f, err := New(root, db, nil)
	v.Assert(err == nil && f != nil, "C08.readback.cannot-open-committed-root")
	if f == nil {
		return
	}
	got := verifObserve(f, na, ns)
	// per-transaction observables are not part of committed state
	got.refund, got.nlogs, got.logSize, got.preimages = want.refund, want.nlogs, want.logSize, want.preimages
	for i := range got.acct {
		got.acct[i].inAL, got.acct[i].slotAL, got.acct[i].tst = want.acct[i].inAL, want.acct[i].slotAL, want.acct[i].tst
	}
	verifSameObs(v, got, want, "C08.readback", ns)
	v.Assert(s.Error() == nil && f.Error() == nil, "C08.db-error")
}

func VerifC08_dbg(v *VerifV) {
	verifV = v
	db := verifNewDB()
	s, _ := New(cmn.Hash{}, db, nil)
	s.SetState(verifAddr(0), verifSlot(0), verifVal(1))
	s.IntermediateRoot(false)
}

// ---- J5: reads return what was written (independent reference) ---------------------------------

type verifRefAcct struct {
	exists    bool
	bal       *big.Int
	nonce     uint64
	code      []byte
	storage   [2]cmn.Hash
	committed [2]cmn.Hash // value at the start of the current transaction (last Finalise)
}

func (r verifRefAcct) clone() verifRefAcct {
	c := r
	c.bal = new(big.Int).Set(r.bal)
	return c
}

// VerifC08_J5: an independent reference (plain variables, copied on Snapshot, restored on
// Revert) is kept next to the StateDB for histories of writes, snapshots/reverts, Finalise,
// IntermediateRoot and Commit-then-reopen (no account deletion): after every step every read of
// the account (existence, balance, nonce, code, each slot, each committed slot) returns what the
// reference says, i.e. the last value written and not reverted.
func VerifC08_J5(v *VerifV) {
	verifV = v
	ns, K := 2, v.Param("K")
	a := verifAddr(0)
	db := verifNewDB()
	pre := verifPre{tier: v.Choice("pre-state", 4)}
	ref := verifRefAcct{bal: new(big.Int)}
	if pre.tier != 0 {
		pre.bal = []*big.Int{v.Big("pre-balance", 64)}
		pre.nonce = []uint64{v.U64("pre-nonce")}
		pre.code = []bool{false}
		ref = verifRefAcct{exists: true, bal: new(big.Int).Set(pre.bal[0]), nonce: pre.nonce[0]}
		ref.storage[0] = verifVal(1)
		if pre.tier >= 2 {
			ref.committed[0] = verifVal(1)
		}
	}
	s := verifBuild(v, pre, db, 1)
	type snap struct {
		id  int
		ref verifRefAcct
	}
	var live []snap
	check := func() {
		v.Assert(s.Exist(a) == ref.exists, "C08.read.existence")
		v.Assert(s.GetBalance(a).Cmp(ref.bal) == 0, "C08.read.balance")
		v.Assert(s.GetNonce(a) == ref.nonce, "C08.read.nonce")
		v.Assert(bytes.Equal(s.GetCode(a), ref.code), "C08.read.code")
		for k := 0; k < ns; k++ {
			v.Assert(s.GetState(a, verifSlot(k)) == ref.storage[k], "C08.read.storage-not-last-written")
			v.Assert(s.GetCommittedState(a, verifSlot(k)) == ref.committed[k], "C08.read.committed-storage")
		}
	}
	check()
	for step := 0; step < K; step++ {
		switch v.Choice("op", 7) {
		case 0:
			val := v.Choice("value", 3)
			s.SetState(a, verifSlot(0), verifVal(val))
			ref.storage[0], ref.exists = verifVal(val), true
			v.Cover("set-state")
		case 1:
			amt := v.Big("amount", 64)
			v.Assume(amt.Sign() != 0)
			s.AddBalance(a, amt)
			ref.bal, ref.exists = new(big.Int).Add(ref.bal, amt), true
		case 2:
			live = append(live, snap{s.Snapshot(), ref.clone()})
		case 3:
			if len(live) == 0 {
				return
			}
			i := v.Choice("revert-to", len(live))
			s.RevertToSnapshot(live[i].id)
			ref = live[i].ref
			live = live[:i]
			v.Cover("reverted")
		case 4:
			s.Finalise(false)
			ref.committed = ref.storage
			live = live[:0]
			v.Cover("finalised")
		case 5:
			s.IntermediateRoot(false)
			ref.committed = ref.storage
			live = live[:0]
		case 6:
			root, err := s.Commit(false)
			v.Assert(err == nil, "C08.commit.error")
			ns2, err := New(root, db, nil)
			v.Assert(err == nil && ns2 != nil, "C08.readback.cannot-open-committed-root")
			if ns2 == nil {
				return
			}
			s = ns2
			ref.committed = ref.storage
			live = live[:0]
			v.Cover("reopened")
		}
		check()
	}
	v.Assert(s.Error() == nil, "C08.db-error")
}
