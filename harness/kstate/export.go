package state

import (
	"math/big"

	cmn "github.com/kardiachain/go-kardia/lib/common"
)

// Exported access to the model state database for harnesses in other packages (tx pool).

// VerifBind gives the stubs of this package a nondet handle (prelude methods are intercepted
// by name, so any handle will do).
func VerifBind() { verifV = &VerifV{} }

// VerifNewState: a StateDB over a fresh model database in which the given accounts exist with
// the given nonce and balance (committed and reloaded, i.e. as a node sees the head state).
func VerifNewState(addrs []cmn.Address, nonces []uint64, balances []*big.Int) *StateDB {
	db := verifNewDB()
	s, _ := New(cmn.Hash{}, db, nil)
	for i, a := range addrs {
		s.SetNonce(a, nonces[i])
		s.SetBalance(a, balances[i])
	}
	root, err := s.Commit(false)
	if err != nil {
		panic(err)
	}
	out, err := New(root, db, nil)
	if err != nil {
		panic(err)
	}
	return out
}
