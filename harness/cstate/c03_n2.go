package cstate

import (
	"errors"

	cmn "github.com/kardiachain/go-kardia/lib/common"
	"github.com/kardiachain/go-kardia/types"
)

type verifBlk struct {
	hash  byte
	valid bool
}

var verifBlocks map[*types.Block]*verifBlk
var verifValidations int

// stub for validateBlock (the full validation is exercised elsewhere): the verdict recorded for
// this block object
func verifStubValidateBlock(_ EvidencePool, _ Store, _ LatestBlockState, b *types.Block) error {
	verifValidations++
	if in := verifBlocks[b]; in != nil && in.valid {
		return nil
	}
	return errors.New("verif: block does not validate against the state")
}

// stub for (*types.Block).Hash (header hash): two different blocks may carry the same header
func verifStubBlockHash(b *types.Block) cmn.Hash {
	if in := verifBlocks[b]; in != nil {
		return cmn.Hash{0xB1, in.hash}
	}
	return cmn.Hash{}
}

// VerifC03_N2: BlockExecutor.ValidateBlock (the entry point the consensus handlers call before
// prevoting, precommitting and committing) with its per-height result cache: for every sequence
// of K calls on blocks of which some are valid and some are not, and of which two may share a
// header (same Block.Hash, different body), every call accepts exactly the valid blocks.
func VerifC03_N2(v *VerifV) {
	K := v.Param("K")
	verifBlocks = map[*types.Block]*verifBlk{}
	verifValidations = 0
	var blocks []*types.Block
	for i := 0; i < 3; i++ {
		b := types.NewBlockWithHeader(&types.Header{Height: 5})
		in := &verifBlk{hash: byte(i), valid: v.Bool("valid")}
		if i == 2 && v.Bool("same-header-as-first") {
			in.hash = 0
			v.Cover("same-header-different-body")
		}
		verifBlocks[b] = in
		blocks = append(blocks, b)
	}
	exec := NewBlockExecutor(nil, verifNopLogger{}, nil, nil)
	st := LatestBlockState{ChainID: "kai", LastBlockHeight: 4}
	for k := 0; k < K; k++ {
		b := blocks[v.Choice("block", len(blocks))]
		err := exec.ValidateBlock(st, b)
		if verifBlocks[b].valid {
			v.Assert(err == nil, "C03.validate.valid-block-refused")
			v.Cover("accepted")
		} else {
			v.Assert(err != nil, "C03.validate.invalid-block-accepted")
			v.Cover("refused")
		}
	}
}
