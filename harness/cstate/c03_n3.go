package cstate

import (
	"time"

	cmn "github.com/kardiachain/go-kardia/lib/common"
	kproto "github.com/kardiachain/go-kardia/proto/kardiachain/types"
	"github.com/kardiachain/go-kardia/types"
)

// Block.ValidateBasic (internal consistency of header and body: C13's subject) is a verdict
// here; evidence checking (C19) likewise.
var verifBasicOK, verifEvidenceOK bool

func verifStubBlockValidateBasic(b *types.Block, _ types.TrieHasher) error {
	if verifBasicOK {
		return nil
	}
	return verifErr("block fails basic validation")
}

type verifErr string

func (e verifErr) Error() string { return string(e) }

type verifEvPool struct{}

func (verifEvPool) PendingEvidence(int64) ([]types.Evidence, int64) { return nil, 0 }
func (verifEvPool) AddEvidence(types.Evidence) error               { return nil }
func (verifEvPool) Update(LatestBlockState, types.EvidenceList)    {}
func (verifEvPool) CheckEvidence(types.EvidenceList) error {
	if verifEvidenceOK {
		return nil
	}
	return verifErr("evidence refused")
}

// VerifC03_N3: the real validateBlock: a block is built that extends the state correctly (height,
// previous block id, application hash, validator hashes, proposer, median time of a LastCommit
// signed by the entitled set), then exactly one aspect is made arbitrary: a header field, the
// time offset, the proposer, the commit's target/height/signatures, the verdicts of basic and
// evidence validation. The block is accepted iff every aspect is the valid one and the LastCommit
// carries genuine signatures of more than 2/3 of the last validators' power for the previous block.
func VerifC03_N3(v *VerifV) {
	types.VerifBind()
	verifV = v
	const N = 3
	lastVals, p, total := types.VerifMkVals(N)
	// current and next sets: concrete powers (their hashes are what matters here), different from each other
	mk := func(powers []int64) *types.ValidatorSet {
		var vals []*types.Validator
		for i, pw := range powers {
			vals = append(vals, &types.Validator{Address: types.VerifAddr(i), VotingPower: pw})
		}
		return &types.ValidatorSet{Validators: vals, Proposer: vals[0]}
	}
	curVals, nextVals := mk([]int64{10, 20, 30}), mk([]int64{10, 25, 30})
	initial := v.Choice("height", 2) == 0 // the chain's first block, or a later one
	h := uint64(7)
	ts := types.VerifTS()
	prevID := types.VerifBlockID(1)
	st := LatestBlockState{ChainID: types.VerifChain, InitialHeight: 1, LastBlockHeight: h - 1, LastBlockID: prevID,
		LastBlockTime: ts.Add(-time.Second), AppHash: cmn.Hash{0xAA}, Validators: curVals, NextValidators: nextVals, LastValidators: lastVals}
	if initial {
		h = 1
		st.LastBlockHeight, st.LastBlockID, st.LastBlockTime = 0, types.BlockID{}, ts
		v.Cover("initial-height")
	}
	aspect := v.Choice("aspect", 13)
	header := &types.Header{Height: h, Time: ts, LastBlockID: st.LastBlockID, AppHash: st.AppHash,
		ValidatorsHash: curVals.Hash(), NextValidatorsHash: nextVals.Hash(), ProposerAddress: types.VerifAddr(1)}
	ok := true
	verifBasicOK, verifEvidenceOK = true, true
	commitID, commitHeight := prevID, h-1
	switch aspect {
	case 1:
		header.Height = v.U64("block-height")
		ok = header.Height == h
	case 2:
		if v.Bool("other-hash") {
			header.LastBlockID = types.VerifBlockID(2)
			ok = false
		} else {
			header.LastBlockID.PartsHeader.Total += uint32(v.U8("total-offset"))
			ok = header.LastBlockID.PartsHeader.Total == st.LastBlockID.PartsHeader.Total
		}
	case 3:
		b := v.U8("apphash-byte")
		header.AppHash = cmn.Hash{b}
		ok = b == 0xAA
	case 4:
		header.ValidatorsHash = nextVals.Hash() // hash of another set (distinct unless the sets coincide)
		ok = header.ValidatorsHash == curVals.Hash()
	case 5:
		header.NextValidatorsHash = curVals.Hash()
		ok = header.NextValidatorsHash == nextVals.Hash()
	case 6:
		d := int64(v.Choice("time-offset", 5)) - 2
		header.Time = ts.Add(time.Duration(d) * time.Second)
		ok = d == 0
		v.Cover("time-varied")
	case 7:
		i := v.Choice("proposer", N+1)
		header.ProposerAddress = types.VerifAddr(i)
		ok = i < N
	case 8:
		verifBasicOK = v.Bool("basic-ok")
		ok = verifBasicOK
	case 9:
		verifEvidenceOK = v.Bool("evidence-ok")
		ok = verifEvidenceOK
	case 10:
		commitID = types.VerifBlockID(2)
		ok = initial // the first block carries no commit that could be wrong... except that it must be empty
		v.Cover("commit-for-other-block")
	case 11:
		commitHeight = h
		ok = initial
	case 12:
		// the first block arrives without any LastCommit (BlockFromProto leaves it nil when the
		// field is absent on the wire, and Block.ValidateBasic demands one only above height 1):
		// whatever the verdict, validation must not crash the node (C18)
		v.Assume(initial)
		v.Cover("first-block-without-commit")
	}
	// the LastCommit
	var commit *types.Commit
	tally := int64(0)
	allGenuine := true
	if initial {
		commit = types.NewCommit(0, 0, types.BlockID{}, nil)
		if aspect == 10 || aspect == 11 {
			// a first block that does carry signatures
			sig, _ := types.VerifNewSig(types.VerifAddr(0), types.VerifVoteTuple(kproto.PrecommitType, 0, 0, commitID, ts))
			commit = types.NewCommit(0, 0, commitID, []types.CommitSig{types.NewCommitSigForBlock(sig, types.VerifAddr(0), ts)})
			ok = false
		}
	} else {
		sigs := make([]types.CommitSig, N)
		for i := 0; i < N; i++ {
			switch v.Choice("sig", 3) {
			case 0:
				sigs[i] = types.NewCommitSigAbsent()
			case 1:
				sig, g := types.VerifNewSig(types.VerifAddr(i), types.VerifVoteTuple(kproto.PrecommitType, commitHeight, 0, commitID, ts))
				sigs[i] = types.NewCommitSigForBlock(sig, types.VerifAddr(i), ts)
				if g {
					tally += p[i]
				} else {
					allGenuine = false
				}
			case 2:
				sig, g := types.VerifNewSig(types.VerifAddr(i), types.VerifVoteTuple(kproto.PrecommitType, commitHeight, 0, types.BlockID{}, ts))
				sigs[i] = types.CommitSig{BlockIDFlag: types.BlockIDFlagNil, ValidatorAddress: types.VerifAddr(i), Timestamp: ts, Signature: sig}
				if !g {
					allGenuine = false
				}
			}
		}
		commit = types.NewCommit(commitHeight, 0, commitID, sigs)
		quorum := allGenuine && 3*tally > 2*total
		if !quorum {
			ok = false
			v.Cover("commit-without-quorum")
		}
		// the block time rule uses the weighted median of the commit's timestamps (all ts here); an
		// all-absent commit has no median: such a commit has no quorum either
	}
	if aspect == 12 {
		commit = nil
	}
	block := types.NewBlock(header, nil, commit, nil, nil)
	err := validateBlock(verifEvPool{}, nil, st, block)
	if aspect == 12 {
		return // no verdict demanded, only the implicit obligation that validation does not panic
	}
	if ok {
		v.Assert(err == nil, "C03.validate.valid-extension-refused")
		v.Cover("accepted")
	} else {
		v.Assert(err != nil, "C03.validate.invalid-extension-accepted")
		v.Cover("refused")
	}
}
