package cstate

import (
	"time"

	"github.com/kardiachain/go-kardia/kai/kaidb"
	"github.com/kardiachain/go-kardia/kai/kaidb/memorydb"
	"github.com/kardiachain/go-kardia/kai/rawdb"
	cmn "github.com/kardiachain/go-kardia/lib/common"
	"github.com/kardiachain/go-kardia/types"
)

var verifV *VerifV

// Stub for lib/merkle.Sum (the validator-set hash): injective uninterpreted function
// (a fixed pseudo-random constant for concrete input, like a real hash).
func verifStubMerkleSum(bz []byte) []byte { return verifV.UF("sha256", true, 32, bz) }

// Stub for rawdb.ReadBlockMeta: the block store is not the subject; a meta record exists for every height.
func verifStubReadBlockMeta(db kaidb.Reader, height uint64) *types.BlockMeta {
	return &types.BlockMeta{Header: &types.Header{Height: height, Time: time.Unix(1600000000+int64(height), 0).UTC()}}
}

func verifAddr(i int) cmn.Address { return cmn.Address{0xA0, byte(i + 1)} }

// a validator set with the given powers and priorities; proposer = validator pi
func verifSet(powers []int64, prios []int64, pi int) *types.ValidatorSet {
	vals := make([]*types.Validator, len(powers))
	for i := range powers {
		vals[i] = &types.Validator{Address: verifAddr(i), VotingPower: powers[i], ProposerPriority: prios[i]}
	}
	vs := &types.ValidatorSet{Validators: vals}
	vs.Proposer = vals[pi]
	_ = vs.TotalVotingPower()
	return vs
}

func verifSameMembers(v *VerifV, got, want *types.ValidatorSet, label string) bool {
	v.Assert(got != nil && len(got.Validators) == len(want.Validators), label)
	if got == nil || len(got.Validators) != len(want.Validators) {
		return false
	}
	for i := range want.Validators {
		g, w := got.Validators[i], want.Validators[i]
		v.Assert(g.Address == w.Address && g.VotingPower == w.VotingPower, label)
	}
	return true
}

func verifSamePrios(v *VerifV, got, want *types.ValidatorSet, prioLabel string) {
	for i := range want.Validators {
		v.Assert(got.Validators[i].ProposerPriority == want.Validators[i].ProposerPriority, prioLabel)
	}
	v.Assert(got.Proposer != nil && got.Proposer.Address == want.Proposer.Address, prioLabel)
}

func verifSameSet(v *VerifV, got, want *types.ValidatorSet, label, prioLabel string) {
	if verifSameMembers(v, got, want, label) {
		verifSamePrios(v, got, want, prioLabel)
	}
}

// VerifC14_D1: genesis + two states saved in order, then the head state is loaded: it must equal
// what was saved, field by field, including every proposer priority and the proposer of the
// last, current and next sets. Priorities are symbolic.
func VerifC14_D1(v *VerifV) {
	verifV = v
	db := memorydb.New()
	prio := func(n int) []int64 {
		p := make([]int64, n)
		for i := range p {
			x := v.I64("prio")
			v.Assume(x >= 0 && x < 100)
			p[i] = x
		}
		return p
	}
	powers := []int64{10, 20}
	changed := v.Choice("next-set-differs", 2) == 1 // a validator-set change taking effect at h+2
	nextPowers := powers
	if changed {
		nextPowers = []int64{10, 25}
		v.Cover("membership-change")
	} else {
		v.Cover("static-membership")
	}
	mk := func(h uint64) LatestBlockState {
		return LatestBlockState{ChainID: "kai", InitialHeight: 1, LastBlockHeight: h, LastHeightValidatorsChanged: 1,
			LastHeightConsensusParamsChanged: 1, AppHash: cmn.Hash{byte(h + 1)}}
	}
	g := mk(0)
	gs := verifSet(powers, prio(2), 0)
	g.LastValidators, g.Validators, g.NextValidators = gs, gs, gs
	saveState(db, g)
	rawdb.WriteAppHash(db, 0, g.AppHash)
	s1 := mk(1)
	s1.LastValidators, s1.Validators, s1.NextValidators = gs, verifSet(powers, prio(2), 1), verifSet(powers, prio(2), 0)
	saveState(db, s1)
	rawdb.WriteAppHash(db, 1, s1.AppHash)
	s2 := mk(2)
	s2.LastValidators, s2.Validators, s2.NextValidators = s1.Validators, s1.NextValidators, verifSet(nextPowers, prio(2), v.Choice("next-proposer", 2))
	saveState(db, s2)
	rawdb.WriteAppHash(db, 2, s2.AppHash) // the application hash is written by the block executor

	got := loadStateAtHeight(db, 2)
	v.Assert(got != nil, "C14.load.missing")
	if got == nil {
		return
	}
	v.Assert(got.ChainID == "kai" && got.LastBlockHeight == 2 && got.AppHash == s2.AppHash, "C14.load.scalar-fields")
	prioLabel := "C14.load.priorities-or-proposer-differ"
	if !changed {
		// all three sets have the same membership (same record key): the listed finding
		prioLabel = "C14.load.priorities-of-equal-membership-sets-overwritten"
	}
	verifSameSet(v, got.NextValidators, s2.NextValidators, "C14.load.next-validators", "C14.load.next-priorities-or-proposer-differ")
	verifSameSet(v, got.Validators, s2.Validators, "C14.load.validators", prioLabel)
	verifSameSet(v, got.LastValidators, s2.LastValidators, "C14.load.last-validators", "C14.load.priorities-of-equal-membership-sets-overwritten")
}

// VerifC14_D2: a chain with validator-set changes, saved in order, pruned over an arbitrary
// range, then every kept state loads, and the set retrievable for a kept height is the one
// entitled to sign it (membership and powers).
func VerifC14_D2(v *VerifV) {
	verifV = v
	db := memorydb.New()
	store := &dbStore{db: db}
	H := v.Param("H")
	// signer(h) for h = 1..H+2: set generation changes at two heights
	c1 := 3 + v.Choice("first-change", 2) // first height signed by generation 1 (block 1 is the first that can carry updates)
	c2 := c1 + 1 + v.Choice("second-change", 2)
	gen := func(h int) int {
		switch {
		case h >= c2:
			return 2
		case h >= c1:
			return 1
		}
		return 0
	}
	sets := []*types.ValidatorSet{verifSet([]int64{10, 20}, []int64{1, 2}, 0), verifSet([]int64{10, 25}, []int64{3, 4}, 1), verifSet([]int64{10, 20, 5}, []int64{5, 6, 7}, 0)}
	returns := v.Choice("returns-to-genesis-membership", 2) == 1
	if returns {
		// the second change goes back to the genesis membership and powers (A, B, A), other priorities
		sets[2] = verifSet([]int64{10, 20}, []int64{8, 9}, 1)
		v.Cover("membership-returns")
	}
	signer := func(h int) *types.ValidatorSet { return sets[gen(h)] }
	// sets with equal membership share one record (the listed finding): their priorities are
	// compared under the finding's label, all others under the ordinary one
	prioLabel := func(h int) string {
		if returns && gen(h) != 1 {
			return "C14.load.priorities-of-equal-membership-sets-overwritten"
		}
		return "C14.prune.prio"
	}
	for h := 0; h <= H; h++ {
		st := LatestBlockState{ChainID: "kai", InitialHeight: 1, LastBlockHeight: uint64(h), LastHeightValidatorsChanged: 1,
			LastHeightConsensusParamsChanged: 1, AppHash: cmn.Hash{byte(h + 1)}}
		if h == 0 {
			st.LastValidators, st.Validators, st.NextValidators = sets[0], sets[0], sets[0]
		} else {
			st.LastValidators, st.Validators, st.NextValidators = signer(h), signer(h+1), signer(h+2)
		}
		saveState(db, st)
	}
	from := uint64(v.Choice("prune-from", 3))
	to := from + uint64(v.Choice("prune-len", H))
	if to > uint64(H) {
		to = uint64(H)
	}
	store.PruneState(from, to)
	if to > from {
		v.Cover("pruned")
	}
	// pass 1: every kept state loads with the right membership and powers; pass 2: priorities
	// (a failing assertion ends the path, and priorities of equal-membership sets are the listed finding)
	loaded := map[int]*LatestBlockState{}
	for h := int(to); h <= H; h++ {
		if h == 0 {
			continue
		}
		got := loadStateAtHeight(db, uint64(h))
		v.Assert(got != nil, "C14.prune.kept-state-missing")
		if got == nil {
			continue
		}
		okL := verifSameMembers(v, got.LastValidators, signer(h), "C14.prune.kept-state-last-validators")
		okC := verifSameMembers(v, got.Validators, signer(h+1), "C14.prune.kept-state-validators")
		okN := verifSameMembers(v, got.NextValidators, signer(h+2), "C14.prune.kept-state-next-validators")
		vs, err := store.LoadValidators(uint64(h))
		v.Assert(err == nil, "C14.prune.validators-of-kept-height-not-retrievable")
		if err == nil {
			verifSameMembers(v, vs, signer(h), "C14.history.not-the-set-entitled-to-sign")
		}
		if okL && okC && okN {
			loaded[h] = got
		}
	}
	for h := int(to); h <= H; h++ {
		got := loaded[h]
		if got == nil {
			continue
		}
		verifSamePrios(v, got.LastValidators, signer(h), prioLabel(h))
		verifSamePrios(v, got.Validators, signer(h+1), prioLabel(h+1))
		verifSamePrios(v, got.NextValidators, signer(h+2), prioLabel(h+2))
	}
}

// Stubs for Keccak (used for record keys): injective uninterpreted function.
func verifStubKeccak256(data ...[]byte) []byte {
	var all []byte
	for _, d := range data {
		all = append(all, d...)
	}
	return verifV.UF("keccak256", true, 32, all)
}
func verifStubKeccak256Hash(data ...[]byte) (h cmn.Hash) {
	copy(h[:], verifStubKeccak256(data...))
	return h
}

// Stub for common.Address.Hex (checksummed hex needs Keccak): plain lower-case hex.
func verifStubAddrHex(a cmn.Address) string {
	const digits = "0123456789abcdef"
	out := []byte("0x")
	for _, b := range a {
		out = append(out, digits[b>>4], digits[b&15])
	}
	return string(out)
}
