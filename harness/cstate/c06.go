package cstate

import (
	"time"

	cmn "github.com/kardiachain/go-kardia/lib/common"
	"github.com/kardiachain/go-kardia/types"
)

// VerifC06_O1: the validator-set update applied to consensus does not depend on the order in
// which the application reports validators, nor on map iteration order inside
// calculateValidatorSetUpdates. The application reports up to three validators out of a universe
// of four (three current members, one newcomer); one of them has a symbolic power, the others
// keep their power or change to a fixed value; the report is processed
// twice, in two arbitrary orders (and, with map_orders, under every iteration order of the
// "last" map); the resulting states must have the same NextValidators (members, powers,
// priorities, proposer) and the same change height, or both must fail.
func VerifC06_O1(v *VerifV) {
	verifV = v
	cur := verifSet([]int64{10, 20, 30}, []int64{-25, 5, 20}, 2)
	state := LatestBlockState{ChainID: "kai", InitialHeight: 1, LastBlockHeight: 4, LastHeightValidatorsChanged: 1,
		LastValidators: cur.Copy(), Validators: cur.Copy(), NextValidators: cur}
	var rep []*types.Validator
	for i := 0; i < 4; i++ {
		if v.Bool("reported") {
			// one symbolic power (validator S, a parameter), the others unchanged or a fixed new value
			var p int64
			switch {
			case i == v.Param("S"):
				p = v.I64("power")
				v.Assume(p >= 1 && p <= int64(v.Param("PMAX")))
			case i < 3 && v.Bool("unchanged"):
				p = cur.Validators[i].VotingPower
			default:
				p = 7
			}
			rep = append(rep, &types.Validator{Address: verifAddr(i), VotingPower: p})
		}
	}
	v.Assume(len(rep) <= 3)
	switch len(rep) {
	case 0:
		v.Cover("empty-report")
	case 3:
		v.Cover("three-reported")
	}
	perm := func() []*types.Validator {
		out := make([]*types.Validator, len(rep))
		switch len(rep) {
		case 2:
			if v.Bool("swap") {
				out[0], out[1] = rep[1], rep[0]
				return out
			}
		case 3:
			p := [][]int{{0, 1, 2}, {0, 2, 1}, {1, 0, 2}, {1, 2, 0}, {2, 0, 1}, {2, 1, 0}}[v.Choice("perm", 6)]
			for i := range out {
				out[i] = rep[p[i]]
			}
			return out
		}
		copy(out, rep)
		return out
	}
	header := &types.Header{Height: 5, Time: time.Unix(1600000005, 0).UTC()}
	run := func() (LatestBlockState, error) {
		in := perm()
		cp := make([]*types.Validator, len(in)) // the application hands over fresh objects each time
		for i, x := range in {
			cp[i] = &types.Validator{Address: x.Address, VotingPower: x.VotingPower}
		}
		ups := calculateValidatorSetUpdates(state.NextValidators.Validators, cp)
		return updateState(verifNopLogger{}, state, types.BlockID{Hash: cmn.Hash{5}}, header, ups)
	}
	a, errA := run()
	b, errB := run()
	v.Assert((errA == nil) == (errB == nil), "C06.valupdates.acceptance-depends-on-order")
	if errA != nil || errB != nil {
		v.Cover("update-rejected")
		return
	}
	v.Cover("update-applied")
	v.Assert(a.LastHeightValidatorsChanged == b.LastHeightValidatorsChanged, "C06.valupdates.change-height-depends-on-order")
	verifSameSet(v, a.NextValidators, b.NextValidators, "C06.valupdates.set-depends-on-order", "C06.valupdates.priorities-depend-on-order")
}

// VerifC12_P3: updateState advances the validator sets by exactly one block: the new current set
// is the old next set, the new last set the old current set, and the new next set is the old next
// set with the block's updates applied and the proposer priority advanced by exactly one round;
// the change height moves to height+2 iff there were updates. Priorities of the old next set are
// symbolic.
func VerifC12_P3(v *VerifV) {
	verifV = v
	prio := func() int64 { x := v.I64("prio"); v.Assume(x >= -40 && x <= 40); return x }
	p0, p1 := prio(), prio()
	p2 := -(p0 + p1) // centred
	next := verifSet([]int64{10, 20, 30}, []int64{p0, p1, p2}, v.Choice("proposer", 3))
	cur := verifSet([]int64{10, 20, 30}, []int64{1, 2, -3}, 0)
	last := verifSet([]int64{10, 20, 30}, []int64{3, -1, -2}, 1)
	st := LatestBlockState{ChainID: "kai", InitialHeight: 1, LastBlockHeight: 4, LastHeightValidatorsChanged: 2,
		LastValidators: last, Validators: cur, NextValidators: next}
	var ups []*types.Validator
	if v.Bool("with-updates") {
		ups = []*types.Validator{{Address: verifAddr(1), VotingPower: 25}}
		v.Cover("with-updates")
	}
	want := next.Copy()
	if len(ups) > 0 {
		cp := []*types.Validator{{Address: ups[0].Address, VotingPower: ups[0].VotingPower}}
		v.Assert(want.UpdateWithChangeSet(cp) == nil, "C12.state.setup")
	}
	want.IncrementProposerPriority(1)
	header := &types.Header{Height: 5, Time: time.Unix(1600000005, 0).UTC()}
	got, err := updateState(verifNopLogger{}, st, types.BlockID{Hash: cmn.Hash{5}}, header, ups)
	v.Assert(err == nil, "C12.state.update-error")
	if err != nil {
		return
	}
	verifSameSet(v, got.NextValidators, want, "C12.state.next-set-members", "C12.state.next-set-not-advanced-by-exactly-one-round")
	verifSameSet(v, got.Validators, next, "C12.state.current-set-is-not-the-old-next-set", "C12.state.current-set-is-not-the-old-next-set")
	verifSameSet(v, got.LastValidators, cur, "C12.state.last-set-is-not-the-old-current-set", "C12.state.last-set-is-not-the-old-current-set")
	if len(ups) > 0 {
		v.Assert(got.LastHeightValidatorsChanged == 7, "C12.state.change-height")
	} else {
		v.Assert(got.LastHeightValidatorsChanged == 2, "C12.state.change-height")
	}
	v.Assert(got.LastBlockHeight == 5 && got.LastBlockID.Hash == (cmn.Hash{5}), "C12.state.block-reference")
	// the input state is not modified (the sets are copied)
	verifSameSet(v, st.NextValidators, next, "C12.state.input-state-modified", "C12.state.input-state-modified")
}
