package cstate

import (
	"time"

	cmn "github.com/kardiachain/go-kardia/lib/common"
	"github.com/kardiachain/go-kardia/types"
)

// VerifC06_O1: the validator-set update applied to consensus does not depend on the order in
// which the application reports validators, nor on map iteration order inside
// calculateValidatorSetUpdates. The application reports up to three validators out of a universe
// of four (three current members, one newcomer); one of them has a symbolic power, the others
// keep their power or change to a fixed value; the report is processed
// twice, in two arbitrary orders (and, with map_orders, under every iteration order of the
// "last" map); the resulting states must have the same NextValidators (members, powers,
// priorities, proposer) and the same change height, or both must fail.
func VerifC06_O1(v *VerifV) {
	verifV = v
	cur := verifSet([]int64{10, 20, 30}, []int64{-25, 5, 20}, 2)
	state := LatestBlockState{ChainID: "kai", InitialHeight: 1, LastBlockHeight: 4, LastHeightValidatorsChanged: 1,
		LastValidators: cur.Copy(), Validators: cur.Copy(), NextValidators: cur}
	var rep []*types.Validator
	for i := 0; i < 4; i++ {
		if v.Bool("reported") {
			// one symbolic power (validator S, a parameter), the others unchanged or a fixed new value
			var p int64
			switch {
			case i == v.Param("S"):
				p = v.I64("power")
				v.Assume(p >= 1 && p <= int64(v.Param("PMAX")))
			case i < 3 && v.Bool("unchanged"):
				p = cur.Validators[i].VotingPower
			default:
				p = 7
			}
			rep = append(rep, &types.Validator{Address: verifAddr(i), VotingPower: p})
		}
	}
	v.Assume(len(rep) <= 3)
	switch len(rep) {
	case 0:
		v.Cover("empty-report")
	case 3:
		v.Cover("three-reported")
	}
	perm := func() []*types.Validator {
		out := make([]*types.Validator, len(rep))
		switch len(rep) {
		case 2:
			if v.Bool("swap") {
				out[0], out[1] = rep[1], rep[0]
				return out
			}
		case 3:
			p := [][]int{{0, 1, 2}, {0, 2, 1}, {1, 0, 2}, {1, 2, 0}, {2, 0, 1}, {2, 1, 0}}[v.Choice("perm", 6)]
			for i := range out {
				out[i] = rep[p[i]]
			}
			return out
		}
		copy(out, rep)
		return out
	}
	header := &types.Header{Height: 5, Time: time.Unix(1600000005, 0).UTC()}
	run := func() (LatestBlockState, error) {
		in := perm()
		cp := make([]*types.Validator, len(in)) // the application hands over fresh objects each time
		for i, x := range in {
			cp[i] = &types.Validator{Address: x.Address, VotingPower: x.VotingPower}
		}
		ups := calculateValidatorSetUpdates(state.NextValidators.Validators, cp)
		return updateState(verifNopLogger{}, state, types.BlockID{Hash: cmn.Hash{5}}, header, ups)
	}
	a, errA := run()
	b, errB := run()
	v.Assert((errA == nil) == (errB == nil), "C06.valupdates.acceptance-depends-on-order")
	if errA != nil || errB != nil {
		v.Cover("update-rejected")
		return
	}
	v.Cover("update-applied")
	v.Assert(a.LastHeightValidatorsChanged == b.LastHeightValidatorsChanged, "C06.valupdates.change-height-depends-on-order")
	verifSameSet(v, a.NextValidators, b.NextValidators, "C06.valupdates.set-depends-on-order", "C06.valupdates.priorities-depend-on-order")
}
