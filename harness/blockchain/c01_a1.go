package blockchain

import (
	"github.com/kardiachain/go-kardia/kai/state/cstate"
	cmn "github.com/kardiachain/go-kardia/lib/common"
	"github.com/kardiachain/go-kardia/lib/p2p"
	kproto "github.com/kardiachain/go-kardia/proto/kardiachain/types"
	"github.com/kardiachain/go-kardia/types"
)

// Blocks are opaque tokens for the block-sync step: their identity-derived attributes are
// supplied by the harness (stubs by method name).
type verifBlockInfo struct {
	height uint64
	hash   cmn.Hash
	parts  *types.PartSet
	commit *types.Commit
}

var verifBlocks map[*types.Block]*verifBlockInfo

func verifStubBlockHash(b *types.Block) cmn.Hash            { return verifBlocks[b].hash }
func verifStubBlockHeight(b *types.Block) uint64            { return verifBlocks[b].height }
func verifStubBlockLastCommit(b *types.Block) *types.Commit { return verifBlocks[b].commit }
func verifStubBlockMakePartSet(b *types.Block, partSize uint32) *types.PartSet {
	return verifBlocks[b].parts
}

type verifStore struct{ log *[]string }

func (s verifStore) Base() uint64                      { return 0 }
func (s verifStore) Height() uint64                    { return 0 }
func (s verifStore) LoadBlock(h uint64) *types.Block   { return nil }
func (s verifStore) SaveBlock(b *types.Block, ps *types.PartSet, c *types.Commit) {
	*s.log = append(*s.log, "save")
	verifSaved, verifSavedCommit = b, c
}

var verifSaved, verifApplied *types.Block
var verifSavedCommit *types.Commit
var verifAppliedID types.BlockID

type verifApplier struct{ log *[]string }

func (a verifApplier) ApplyBlock(st cstate.LatestBlockState, id types.BlockID, b *types.Block) (cstate.LatestBlockState, uint64, error) {
	*a.log = append(*a.log, "apply")
	verifApplied, verifAppliedID = b, id
	st.LastBlockHeight++
	return st, 0, nil
}

// VerifC01_A1: one block-sync step. The block at H is stored and applied only after the
// LastCommit carried by the block at H+1 verified against the validator set entitled to sign H
// (the state's current set), for exactly that block id and height; otherwise nothing is stored,
// both peers' blocks are dropped and a verification failure is reported.
func VerifC01_A1(v *VerifV) {
	types.VerifBind()
	const N = 2
	vals, p, total := types.VerifMkVals(N)
	// the next set: same members, other powers (a set change between H and H+1)
	nextVals, _, _ := types.VerifMkVals(N)
	const H = 10
	st := cstate.LatestBlockState{ChainID: types.VerifChain, InitialHeight: 1, LastBlockHeight: H - 1,
		Validators: vals, NextValidators: nextVals, LastValidators: vals}
	var log []string
	verifSaved, verifApplied, verifSavedCommit = nil, nil, nil
	ctx := &pContext{store: verifStore{&log}, applier: verifApplier{&log}, state: st}
	first, second := &types.Block{}, &types.Block{}
	firstID := types.VerifBlockID(1)
	parts := types.NewPartSetFromHeader(firstID.PartsHeader)
	// the commit the second block carries
	sigs := make([]types.CommitSig, N)
	tally := int64(0)
	allGenuine := true
	commitID := firstID
	commitHeight := uint64(H)
	switch v.Choice("commit-for", 3) {
	case 1:
		commitID = types.VerifBlockID(2)
		v.Cover("commit-for-other-block")
	case 2:
		commitHeight = H + 1
		v.Cover("commit-for-other-height")
	}
	for i := 0; i < N; i++ {
		switch v.Choice("sig", 3) {
		case 0:
			sigs[i] = types.NewCommitSigAbsent()
		case 1:
			sig, g := types.VerifNewSig(types.VerifAddr(i), types.VerifVoteTuple(kproto.PrecommitType, commitHeight, 0, commitID, types.VerifTS()))
			sigs[i] = types.NewCommitSigForBlock(sig, types.VerifAddr(i), types.VerifTS())
			if g {
				tally += p[i]
			} else {
				allGenuine = false
			}
		case 2:
			sig, g := types.VerifNewSig(types.VerifAddr(i), types.VerifVoteTuple(kproto.PrecommitType, commitHeight, 0, types.BlockID{}, types.VerifTS()))
			sigs[i] = types.CommitSig{BlockIDFlag: types.BlockIDFlagNil, ValidatorAddress: types.VerifAddr(i), Timestamp: types.VerifTS(), Signature: sig}
			if !g {
				allGenuine = false
			}
		}
	}
	commit := types.NewCommit(commitHeight, 0, commitID, sigs)
	verifBlocks = map[*types.Block]*verifBlockInfo{
		first:  {height: H, hash: firstID.Hash, parts: parts},
		second: {height: H + 1, hash: types.VerifBlockID(3).Hash, commit: commit},
	}
	state := &pcState{queue: blockQueue{H: {block: first, peerID: p2p.ID("peer-a")}, H + 1: {block: second, peerID: p2p.ID("peer-b")}}, context: ctx}

	ev, err := state.handle(rProcessBlock{})

	justified := commitHeight == H && commitID.Equal(firstID) && allGenuine && 3*tally > 2*total
	v.Assert(err == nil, "C01.sync.handler-error")
	if verifSaved != nil || verifApplied != nil {
		v.Cover("adopted")
		v.Assert(justified, "C01.sync.block-adopted-without-commit-of-the-entitled-set")
		v.Assert(verifSaved == first && verifApplied == first, "C01.sync.wrong-block-adopted")
		v.Assert(len(log) == 2 && log[0] == "save" && log[1] == "apply", "C01.sync.apply-before-save")
		v.Assert(verifAppliedID.Equal(firstID), "C01.sync.applied-under-other-id")
		v.Assert(verifSavedCommit == commit, "C01.sync.saved-with-other-commit")
		_, ok := ev.(pcBlockProcessed)
		v.Assert(ok, "C01.sync.event")
		_, still := state.queue[H]
		v.Assert(!still, "C01.sync.block-left-in-queue")
	} else {
		v.Cover("refused")
		v.Assert(!justified, "C01.sync.justified-block-refused")
		_, ok := ev.(pcBlockVerificationFailure)
		v.Assert(ok, "C01.sync.failure-not-reported")
		v.Assert(len(state.queue) == 0, "C01.sync.bad-peers-blocks-kept")
	}
}
