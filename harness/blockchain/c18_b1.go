package blockchain

import (
	"time"

	"github.com/kardiachain/go-kardia/configs"
	"github.com/kardiachain/go-kardia/lib/p2p"
	"github.com/kardiachain/go-kardia/types"
)

func verifStubSince(time.Time) time.Duration { return time.Second }

// VerifC18_B1: the block-sync scheduler under every sequence of K peer-driven events (status
// responses with arbitrary base/height, block responses, "no block" responses, peer removal)
// interleaved with its own scheduling ticks, from two peers: no event panics it, and a block is
// handed to the processor (scBlockReceived) only if exactly that height had been requested from
// exactly that peer and not yet answered - a peer cannot inject blocks nobody asked it for.
func VerifC18_B1(v *VerifV) {
	const initH = 10
	now := time.Unix(1600000000, 0).UTC()
	sc := newScheduler(initH, now, &configs.FastSyncConfig{SyncTimeout: time.Minute, TargetPending: 3, PeerTimeout: time.Minute, MinRecvRate: 0})
	verifBlocks = map[*types.Block]*verifBlockInfo{}
	peers := []p2p.ID{"p1", "p2"}
	requested := map[uint64]p2p.ID{} // reference: outstanding requests
	K := v.Param("K")
	hs := []uint64{initH - 1, initH, initH + 1, 1 << 62}
	// fixed prefix: p1 reports blocks up to H+2 and the first height is requested from it
	_, _ = sc.handle(bcStatusResponse{peerID: "p1", base: 0, height: initH + 2})
	if out, _ := sc.handle(rTrySchedule{time: now}); true {
		if o, ok := out.(scBlockRequest); ok {
			requested[o.height] = o.peerID
		}
	}
	v.Assert(requested[initH] == "p1", "C18.sync.setup")
	for step := 0; step < K; step++ {
		p := peers[v.Choice("peer", 2)]
		var ev Event
		switch v.Choice("event", 5) {
		case 0:
			base, height := []uint64{0, initH + 3}[v.Choice("base", 2)], []uint64{initH - 1, initH + 1, 1 << 62}[v.Choice("height", 3)]
			ev = bcStatusResponse{peerID: p, base: base, height: height}
		case 1:
			b := &types.Block{}
			verifBlocks[b] = &verifBlockInfo{height: hs[v.Choice("block-height", len(hs))]}
			ev = bcBlockResponse{peerID: p, block: b, size: uint64(v.U8("size")), time: now.Add(time.Second)}
			v.Cover("block-response")
		case 2:
			ev = bcNoBlockResponse{peerID: p, height: initH, time: now}
		case 3:
			ev = bcRemovePeer{peerID: p}
		case 4:
			ev = rTrySchedule{time: now}
		}
		out, err := sc.handle(ev)
		v.Assert(err == nil, "C18.sync.scheduler-error")
		switch o := out.(type) {
		case scBlockRequest:
			requested[o.height] = o.peerID
			v.Cover("requested")
		case scBlockReceived:
			h := verifBlocks[o.block].height
			v.Assert(requested[h] == o.peerID, "C18.sync.unrequested-block-accepted")
			delete(requested, h)
			v.Cover("received")
		case scPeerError:
			for h, q := range requested {
				if q == o.peerID {
					delete(requested, h)
				}
			}
		}
		if rm, ok := ev.(bcRemovePeer); ok {
			for h, q := range requested {
				if q == rm.peerID {
					delete(requested, h)
				}
			}
		}
	}
}
