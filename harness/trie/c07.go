package trie

import (
	"hash"
	"sort"

	cmn "github.com/kardiachain/go-kardia/lib/common"
	"github.com/kardiachain/go-kardia/types"
)

var verifV *VerifV

// Keccak model: an injective uninterpreted function of the bytes written since Reset.
type verifKeccak struct{ buf []byte }

func (k *verifKeccak) Write(p []byte) (int, error) { k.buf = append(k.buf, p...); return len(p), nil }
func (k *verifKeccak) Sum(b []byte) []byte          { return append(b, verifHash(k.buf)...) }
func (k *verifKeccak) Reset()                       { k.buf = nil }
func (k *verifKeccak) Size() int                    { return 32 }
func (k *verifKeccak) BlockSize() int               { return 136 }
func (k *verifKeccak) Read(out []byte) (int, error) {
	return copy(out, verifHash(k.buf)), nil
}

// the hash of a node encoding is neither the zero hash (the code's "no node / deleted" marker)
// nor the empty-root constant: with a real Keccak either would be a preimage found by accident
func verifHash(data []byte) []byte {
	out := verifV.UF("keccak256", true, 32, data)
	var z, e byte
	for i, b := range out {
		z |= b
		e |= b ^ types.EmptyRootHash[i]
	}
	verifV.Assume(z != 0)
	verifV.Assume(e != 0)
	return out
}

// Stub for sha3.NewLegacyKeccak256.
func verifStubNewKeccak() hash.Hash { return &verifKeccak{} }

func verifNewTrie() *Trie { return &Trie{reader: newEmptyReader(), tracer: newTracer()} }

var verifKeys = [][]byte{{0x12, 0x3a}, {0x12, 0x3b}, {0x12}, {0x45}, {0x12, 0x3a, 0x00}, {0x13, 0x3a}}

// VerifC07_T: after a sequence of updates/deletes (values with symbolic bytes and lengths on both
// sides of the 32-byte embedding boundary) the trie returns for every key the last value written,
// and its root equals (a) the root of a fresh trie holding the same content inserted in canonical
// order, (b) the streaming StackTrie's root for the same sorted content: the root is a function
// of the content alone.
func VerifC07_T(v *VerifV) {
	verifV = v
	NK := v.Param("NK")
	NOPS := v.Param("NOPS")
	lens := []int{0, 1, 5, 33}
	t := verifNewTrie()
	ref := make([][]byte, NK) // nil = absent
	for i := 0; i < NOPS; i++ {
		k := v.Choice("key", NK)
		vl := lens[v.Choice("value-len", len(lens))]
		val := v.Bytes("value", vl)
		if vl > 0 {
			v.Assume(val[0] != 0 || vl > 1) // any content; keep 1-byte values distinguishable from "empty"
		}
		var err error
		if vl == 0 {
			if v.Choice("delete-via", 2) == 0 {
				err = t.Delete(verifKeys[k])
			} else {
				err = t.Update(verifKeys[k], nil) // empty value = delete
			}
			ref[k] = nil
			v.Cover("delete")
		} else {
			err = t.Update(verifKeys[k], val)
			ref[k] = val
		}
		v.Assert(err == nil, "C07.update-error")
		if v.Choice("hash-in-between", 2) == 1 {
			_ = t.Hash()
		}
	}
	// map semantics
	live := 0
	for k := 0; k < NK; k++ {
		got, err := t.Get(verifKeys[k])
		v.Assert(err == nil, "C07.get-error")
		v.Assert(len(got) == len(ref[k]), "C07.get.not-last-value-written")
		if len(got) == len(ref[k]) {
			for x := range got {
				v.Assert(got[x] == ref[k][x], "C07.get.not-last-value-written")
			}
		}
		if ref[k] != nil {
			live++
		}
	}
	root := t.Hash()
	// canonical root: fresh trie, content inserted in reverse key order
	fresh := verifNewTrie()
	for k := NK - 1; k >= 0; k-- {
		if ref[k] != nil {
			_ = fresh.Update(verifKeys[k], ref[k])
		}
	}
	froot := fresh.Hash()
	v.Assert(root == froot, "C07.root.depends-on-history")
	// streaming trie over the sorted content
	prefixFree := true
	for a := 0; a < NK; a++ {
		for b := 0; b < NK; b++ {
			if a != b && ref[a] != nil && ref[b] != nil && len(verifKeys[a]) < len(verifKeys[b]) {
				same := true
				for x := range verifKeys[a] {
					if verifKeys[a][x] != verifKeys[b][x] {
						same = false
					}
				}
				if same {
					prefixFree = false // StackTrie (like Ethereum's tries) requires a prefix-free key set
				}
			}
		}
	}
	if live > 0 && prefixFree {
		idx := make([]int, 0, NK)
		for k := 0; k < NK; k++ {
			if ref[k] != nil {
				idx = append(idx, k)
			}
		}
		sort.Slice(idx, func(a, b int) bool { return verifLessBytes(verifKeys[idx[a]], verifKeys[idx[b]]) })
		stk := NewStackTrie(nil)
		for _, k := range idx {
			_ = stk.Update(verifKeys[k], ref[k])
		}
		v.Assert(stk.Hash() == root, "C07.root.differs-from-stack-trie")
		v.Cover("stack-trie")
	} else if live == 0 {
		v.Cover("empty")
	}
	if live >= 2 {
		v.Cover("branching")
	}
	_ = cmn.Hash{}
}

func verifLessBytes(a, b []byte) bool {
	for i := 0; i < len(a) && i < len(b); i++ {
		if a[i] != b[i] {
			return a[i] < b[i]
		}
	}
	return len(a) < len(b)
}

// ---- T2: commit, reopen from the node store, continue ------------------------------------------

// node store: hash -> blob, filled from the node sets returned by Commit
type verifNodeStore struct{ nodes map[cmn.Hash][]byte }

func (s *verifNodeStore) Reader(cmn.Hash) Reader { return s }
func (s *verifNodeStore) Node(_ cmn.Hash, _ []byte, h cmn.Hash) ([]byte, error) {
	return s.nodes[h], nil
}

// VerifC07_T2: a trie is built (N1 updates), committed, reopened by root from the committed nodes
// (children are then unloaded hash references), modified again (N2 updates/deletes), optionally
// committed and reopened a second time: every key still reads the last value written and the
// root is the canonical root of the content (fresh in-memory trie).
func VerifC07_T2(v *VerifV) {
	verifV = v
	NK, N1, N2 := v.Param("NK"), v.Param("N1"), v.Param("N2")
	lens := []int{0, 1, 33}
	store := &verifNodeStore{nodes: map[cmn.Hash][]byte{}}
	t := verifNewTrie()
	ref := make([][]byte, NK)
	apply := func() {
		k := v.Choice("key", NK)
		vl := lens[v.Choice("value-len", len(lens))]
		val := v.Bytes("value", vl)
		if vl > 0 {
			v.Assume(val[0] != 0 || vl > 1)
			v.Assert(t.Update(verifKeys[k], val) == nil, "C07.update-error")
			ref[k] = val
		} else {
			v.Assert(t.Delete(verifKeys[k]) == nil, "C07.update-error")
			ref[k] = nil
			v.Cover("delete")
		}
	}
	reopen := func() {
		root, set := t.Commit(false)
		if set != nil {
			for _, n := range set.Nodes {
				if n.Blob != nil {
					store.nodes[n.Hash] = n.Blob
				}
			}
		}
		nt, err := New(TrieID(root), store)
		v.Assert(err == nil && nt != nil, "C07.reopen.cannot-open-committed-root")
		if nt == nil {
			return
		}
		t = nt
		v.Cover("reopened")
	}
	for i := 0; i < N1; i++ {
		apply()
	}
	reopen()
	for i := 0; i < N2; i++ {
		apply()
	}
	if v.Bool("reopen-again") {
		reopen()
	}
	live := 0
	for k := 0; k < NK; k++ {
		got, err := t.Get(verifKeys[k])
		v.Assert(err == nil, "C07.get-error")
		v.Assert(len(got) == len(ref[k]), "C07.get.not-last-value-written")
		if len(got) == len(ref[k]) {
			for x := range got {
				v.Assert(got[x] == ref[k][x], "C07.get.not-last-value-written")
			}
		}
		if ref[k] != nil {
			live++
		}
	}
	root := t.Hash()
	fresh := verifNewTrie()
	for k := NK - 1; k >= 0; k-- {
		if ref[k] != nil {
			_ = fresh.Update(verifKeys[k], ref[k])
		}
	}
	v.Assert(root == fresh.Hash(), "C07.root.depends-on-history")
	if live >= 2 {
		v.Cover("branching")
	}
}

// ---- T3: Merkle proofs ----------------------------------------------------------------------------

// proof store: the nodes Prove emits, keyed by hash
type verifProofDB struct {
	keys [][]byte
	vals [][]byte
}

func (d *verifProofDB) Put(k, val []byte) error {
	d.keys = append(d.keys, append([]byte(nil), k...))
	d.vals = append(d.vals, append([]byte(nil), val...))
	return nil
}
func (d *verifProofDB) Delete([]byte) error { return nil }
func (d *verifProofDB) Has(k []byte) (bool, error) {
	val, _ := d.Get(k)
	return val != nil, nil
}
func (d *verifProofDB) Get(k []byte) ([]byte, error) {
	for i := range d.keys {
		if len(d.keys[i]) == len(k) {
			var diff byte
			for j := range k {
				diff |= d.keys[i][j] ^ k[j]
			}
			if diff == 0 {
				return d.vals[i], nil
			}
		}
	}
	return nil, nil
}

// VerifC07_T3: for a trie built by N updates (values of 1 / 33 symbolic bytes, so that nodes are
// both embedded and hashed), the proof Prove emits for any key of the universe verifies against
// the root to exactly the stored value (present) or to "absent"; and a proof in which one byte of
// one node was altered (the verifier indexes received nodes by their own hash) never verifies to
// a different value.
func VerifC07_T3(v *VerifV) {
	verifV = v
	NK, N := v.Param("NK"), v.Param("N")
	lens := []int{1, 33}
	t := verifNewTrie()
	ref := make([][]byte, NK)
	for i := 0; i < N; i++ {
		k := v.Choice("key", NK)
		vl := lens[v.Choice("value-len", len(lens))]
		val := v.Bytes("value", vl)
		v.Assume(val[0] != 0 || vl > 1)
		v.Assert(t.Update(verifKeys[k], val) == nil, "C07.update-error")
		ref[k] = val
	}
	root := t.Hash()
	q := v.Choice("query", NK)
	db := &verifProofDB{}
	v.Assert(t.Prove(verifKeys[q], 0, db) == nil, "C07.proof.prove-error")
	tamper := v.Bool("tamper")
	if tamper {
		if len(db.vals) == 0 {
			return
		}
		i := v.Choice("node", len(db.vals))
		pos := v.Choice("byte", 2)
		idx := []int{len(db.vals[i]) / 2, len(db.vals[i]) - 1}[pos]
		nb := v.U8("new-byte")
		v.Assume(nb != db.vals[i][idx])
		db.vals[i][idx] = nb
		// the verifier indexes the nodes it received by their own hash
		db.keys[i] = verifHash(db.vals[i])
		v.Cover("tampered")
	}
	got, err := VerifyProof(root, verifKeys[q], db)
	if !tamper {
		v.Assert(err == nil, "C07.proof.genuine-proof-rejected")
		v.Assert(len(got) == len(ref[q]), "C07.proof.proves-other-value")
		if len(got) == len(ref[q]) {
			for x := range got {
				v.Assert(got[x] == ref[q][x], "C07.proof.proves-other-value")
			}
		}
		if ref[q] == nil {
			v.Cover("absence-proved")
		} else {
			v.Cover("presence-proved")
		}
		return
	}
	// tampered: either rejected, or the same answer - never another value
	if err == nil {
		same := len(got) == len(ref[q])
		if same {
			for x := range got {
				v.Assert(got[x] == ref[q][x], "C07.proof.tampered-proof-proves-other-value")
			}
		}
		v.Assert(same, "C07.proof.tampered-proof-proves-other-value")
	}
}
