package consensus

import (
	"io"
	"os"
	"regexp"
	"time"

	cstypes "github.com/kardiachain/go-kardia/consensus/types"
)

// ---- model file system -------------------------------------------------------------------------
//
// The os entry points used by lib/autofile and consensus/wal.go are replaced (by name) with this
// in-memory model: a flat directory of named byte files, POSIX semantics for append, rename of an
// open file (the descriptor keeps the inode), O_CREATE, Readdir, Stat, Remove. Written bytes
// survive a process crash (page cache); only bytes still in the process's bufio buffer are lost.

type verifInode struct{ data []byte }

type verifFDesc struct {
	ino    *verifInode
	name   string
	pos    int
	app    bool
	dir    bool
	closed bool
}

var verifFiles map[string]*verifInode
var verifFDs map[*os.File]*verifFDesc

func verifFSReset() {
	verifFiles = map[string]*verifInode{}
	verifFDs = map[*os.File]*verifFDesc{}
}

type verifFileInfo struct {
	name string
	size int64
	dir  bool
}

func (fi verifFileInfo) Name() string       { return fi.name }
func (fi verifFileInfo) Size() int64        { return fi.size }
func (fi verifFileInfo) Mode() os.FileMode  { return 0600 }
func (fi verifFileInfo) ModTime() time.Time { return time.Time{} }
func (fi verifFileInfo) IsDir() bool        { return fi.dir }
func (fi verifFileInfo) Sys() interface{}   { return nil }

const verifDir = "/w"

func verifBase(p string) string {
	for i := len(p) - 1; i >= 0; i-- {
		if p[i] == '/' {
			return p[i+1:]
		}
	}
	return p
}

func verifStubOpenFile(name string, flag int, perm os.FileMode) (*os.File, error) {
	f := new(os.File)
	if name == verifDir {
		verifFDs[f] = &verifFDesc{name: name, dir: true}
		return f, nil
	}
	ino := verifFiles[name]
	if ino == nil {
		if flag&os.O_CREATE == 0 {
			return nil, os.ErrNotExist
		}
		ino = &verifInode{}
		verifFiles[name] = ino
	}
	verifFDs[f] = &verifFDesc{ino: ino, name: name, app: flag&os.O_APPEND != 0}
	return f, nil
}

func verifFD(f *os.File) *verifFDesc {
	d := verifFDs[f]
	if d == nil || d.closed {
		return nil
	}
	return d
}

func verifStubFileWrite(f *os.File, b []byte) (int, error) {
	d := verifFD(f)
	if d == nil || d.dir {
		return 0, os.ErrClosed
	}
	if !d.app {
		verifV.Fail("C15.model.non-append-write")
	}
	d.ino.data = append(d.ino.data, b...)
	return len(b), nil
}

func verifStubFileRead(f *os.File, b []byte) (int, error) {
	d := verifFD(f)
	if d == nil || d.dir {
		return 0, os.ErrClosed
	}
	if d.pos >= len(d.ino.data) {
		return 0, io.EOF
	}
	n := copy(b, d.ino.data[d.pos:])
	d.pos += n
	return n, nil
}

func verifStubFileClose(f *os.File) error {
	d := verifFD(f)
	if d == nil {
		return os.ErrClosed
	}
	d.closed = true
	return nil
}

func verifStubFileSync(f *os.File) error {
	if verifFD(f) == nil {
		return os.ErrClosed
	}
	return nil
}

func verifStubFileStat(f *os.File) (os.FileInfo, error) {
	d := verifFD(f)
	if d == nil {
		return nil, os.ErrClosed
	}
	if d.dir {
		return verifFileInfo{name: verifBase(d.name), dir: true}, nil
	}
	return verifFileInfo{name: verifBase(d.name), size: int64(len(d.ino.data))}, nil
}

func verifStubFileReaddir(f *os.File, n int) ([]os.FileInfo, error) {
	d := verifFD(f)
	if d == nil || !d.dir {
		return nil, os.ErrInvalid
	}
	var out []os.FileInfo
	for name, ino := range verifFiles { // directory order is unspecified: explored with map_orders
		out = append(out, verifFileInfo{name: verifBase(name), size: int64(len(ino.data))})
	}
	return out, nil
}

func verifStubStat(name string) (os.FileInfo, error) {
	if name == verifDir {
		return verifFileInfo{name: verifBase(name), dir: true}, nil
	}
	ino := verifFiles[name]
	if ino == nil {
		return nil, os.ErrNotExist
	}
	return verifFileInfo{name: verifBase(name), size: int64(len(ino.data))}, nil
}

func verifStubRemove(name string) error {
	if verifFiles[name] == nil {
		return os.ErrNotExist
	}
	delete(verifFiles, name)
	return nil
}

func verifStubRename(from, to string) error {
	ino := verifFiles[from]
	if ino == nil {
		return os.ErrNotExist
	}
	delete(verifFiles, from)
	verifFiles[to] = ino
	return nil
}

func verifStubEnsureDir(dir string, mode os.FileMode) error { return nil }
func verifStubRandStr(n int) string                         { return "id" }
func verifStubNewTicker(d time.Duration) *time.Ticker       { return &time.Ticker{} }

// regexp: the single pattern used by autofile (`^.+\.([0-9]{3,})$`), implemented directly.
func verifStubMustCompile(p string) *regexp.Regexp {
	if p != `^.+\.([0-9]{3,})$` {
		panic("verif: unexpected regexp " + p)
	}
	return new(regexp.Regexp)
}
func verifStubFindSubmatch(_ *regexp.Regexp, b []byte) [][]byte {
	i := len(b)
	for i > 0 && b[i-1] >= '0' && b[i-1] <= '9' {
		i--
	}
	if len(b)-i < 3 || i < 2 || b[i-1] != '.' {
		return nil
	}
	return [][]byte{b, b[i:]}
}

// ---- W4: the file-backed WAL across rotation and restart -------------------------------------

const verifWalPath = verifDir + "/wal"

func verifOpenWAL(v *VerifV) *BaseWAL {
	wal, err := NewWAL(verifWalPath)
	v.Assert(err == nil && wal != nil, "C15.file.open-failed")
	wal.SetLogger(verifNopLogger{})
	v.Assert(wal.OnStart() == nil, "C15.file.start-failed")
	return wal
}

// VerifC15_W4: a history of K steps on the real BaseWAL / autofile.Group over the model file
// system: write the end marker of the next height, write a data message, flush, rotate the head
// (what the group ticker does when the head exceeds its size limit), WriteSync a message, stop and
// reopen, crash and reopen (buffered bytes lost, synced ones kept). Afterwards, for a symbolic height h in 0..N+1, SearchForEndHeight(h)
// must find the marker iff it reached the files, and the reader must then be positioned at the
// message that followed it.
func VerifC15_W4(v *VerifV) {
	verifV = v
	verifCRCInjective = true
	verifFSReset()
	K := v.Param("K")
	type rec struct {
		end    bool
		h      int64
		tag    uint64
		onDisk bool
	}
	var log []rec // every message handed to the WAL, in order
	wal := verifOpenWAL(v)
	log = append(log, rec{end: true, h: 0, onDisk: true}) // OnStart of an empty WAL writes #ENDHEIGHT 0 (synced)
	next := int64(1)
	flushed := func() {
		for i := range log {
			log[i].onDisk = true
		}
	}
	dropBuffered := func() {
		var kept []rec
		for _, r := range log {
			if r.onDisk {
				kept = append(kept, r)
			}
		}
		log = kept
	}
	reopen := func() {
		empty := true
		if ino := verifFiles[verifWalPath]; ino != nil && len(ino.data) > 0 {
			empty = false
		}
		wal = verifOpenWAL(v)
		if empty {
			log = append(log, rec{end: true, h: 0, onDisk: true})
			v.Cover("restart-on-empty-head")
		}
	}
	for step := 0; step < K; step++ {
		switch v.Choice("step", 7) {
		case 0:
			v.Assert(wal.Write(EndHeightMessage{Height: next}) == nil, "C15.file.write-error")
			log = append(log, rec{end: true, h: next})
			next++
		case 1:
			tag := uint64(len(log))
			v.Assert(wal.Write(timeoutInfo{Duration: 1000, Height: tag, Round: 1, Step: cstypes.RoundStepType(3)}) == nil, "C15.file.write-error")
			log = append(log, rec{tag: tag})
		case 6:
			// own messages are written with WriteSync: on disk when the call returns (C05: write-ahead)
			tag := uint64(len(log))
			v.Assert(wal.WriteSync(timeoutInfo{Duration: 1000, Height: tag, Round: 1, Step: cstypes.RoundStepType(3)}) == nil, "C15.file.write-error")
			log = append(log, rec{tag: tag})
			flushed()
			v.Cover("write-sync")
		case 2:
			v.Assert(wal.FlushAndSync() == nil, "C15.file.flush-error")
			flushed()
		case 3:
			wal.group.RotateFile() // flushes, syncs, renames the head to the next index
			flushed()
			v.Cover("rotated")
		case 4:
			wal.OnStop() // flushes
			flushed()
			reopen()
			v.Cover("restarted")
		case 5:
			dropBuffered() // process dies: the bufio buffer is gone, the files stay
			reopen()
			v.Cover("crashed")
		}
	}
	v.Assert(wal.FlushAndSync() == nil, "C15.file.flush-error")
	flushed()
	{
		// the height searched for is symbolic: every h in [0, N+1] is decided by the solver
		h := v.I64("search-height")
		v.Assume(h >= 0 && h <= next)
		// the last occurrence position of the marker (markers are written once, except #ENDHEIGHT 0)
		at := -1
		for i, r := range log {
			if r.end && r.h == h {
				at = i
			}
		}
		rd, found, err := wal.SearchForEndHeight(h, &WALSearchOptions{})
		v.Assert(err == nil, "C15.search.error-on-intact-log")
		if at < 0 {
			v.Assert(!found, "C15.search.found-marker-never-written")
			v.Cover("absent")
			return
		}
		v.Assert(found && rd != nil, "C15.search.written-marker-not-found")
		if !found || rd == nil {
			return
		}
		v.Cover("found")
		if h == 0 {
			// #ENDHEIGHT 0 may occur several times; any occurrence is a correct answer for the position
			rd.Close()
			return
		}
		msg, derr := NewWALDecoder(rd).Decode()
		if at+1 == len(log) {
			v.Assert(derr == io.EOF, "C15.search.reader-not-at-end-after-last-marker")
		} else {
			v.Assert(derr == nil && msg != nil, "C15.search.reader-not-positioned-after-marker")
			if derr == nil && msg != nil {
				want := log[at+1]
				if want.end {
					m, ok := msg.Msg.(EndHeightMessage)
					v.Assert(ok && m.Height == want.h, "C15.search.reader-not-positioned-after-marker")
				} else {
					m, ok := msg.Msg.(timeoutInfo)
					v.Assert(ok && m.Height == want.tag, "C15.search.reader-not-positioned-after-marker")
				}
			}
		}
		rd.Close()
	}
}

func verifStubOpen(name string) (*os.File, error) { return verifStubOpenFile(name, os.O_RDONLY, 0) }
