package consensus

import (
	cstypes "github.com/kardiachain/go-kardia/consensus/types"
	kproto "github.com/kardiachain/go-kardia/proto/kardiachain/types"
)

// VerifC04_L1: a genuine timeout for the node's current (height, round, step) strictly advances
// (round, step); a stale one changes nothing and signs nothing; when the new step is a waiting
// step a timeout for it is armed (so no step can be waited in forever).
func VerifC04_L1(v *VerifV) {
	verifV = v
	n := verifMkNode(v)
	cs := n.cs
	cs.blockOperations = verifBlockOps{}
	R := uint32(1 + v.Choice("round", 2))
	steps := []cstypes.RoundStepType{cstypes.RoundStepPropose, cstypes.RoundStepPrevoteWait, cstypes.RoundStepPrecommitWait}
	s := steps[v.Choice("step", 3)]
	cs.Round, cs.Step = R, s
	cs.Votes.SetRound(R + 1)
	if s == cstypes.RoundStepPrecommitWait {
		// PrecommitWait is armed without advancing Step beyond Precommit
		cs.Step = cstypes.RoundStepPrecommit
		cs.TriggeredTimeoutPrecommit = true
	}
	if s != cstypes.RoundStepPropose {
		// the waiting steps are entered only with +2/3 of anything: provide nil votes
		t := kproto.PrevoteType
		for i := 1; i < 4; i++ {
			_, _ = cs.Votes.AddVote(n.verifVoteFrom(v, i, t, R, 0), "peer")
		}
	}
	stale := v.Choice("stale", 3) // 0 genuine, 1 older round, 2 older step
	ti := timeoutInfo{Height: verifH, Round: R, Step: s}
	switch stale {
	case 1:
		if R == 1 {
			v.Assume(false)
		}
		ti.Round = R - 1
	case 2:
		if s == cstypes.RoundStepPropose || s == cstypes.RoundStepPrecommitWait {
			v.Assume(false)
		}
		ti.Step = cstypes.RoundStepPropose
	}
	r0, s0 := cs.Round, cs.Step
	cs.handleTimeout(ti, cs.RoundState)
	if stale != 0 {
		v.Cover("stale")
		v.Assert(cs.Round == r0 && cs.Step == s0, "C04.L1.stale-timeout-changed-state")
		v.Assert(len(n.pv.signed) == 0, "C04.L1.stale-timeout-signed")
		return
	}
	v.Cover("genuine")
	v.Assert(cs.Round > r0 || (cs.Round == r0 && cs.Step > s0), "C04.L1.timeout-did-not-advance")
	switch cs.Step {
	case cstypes.RoundStepPropose, cstypes.RoundStepPrevoteWait, cstypes.RoundStepPrecommitWait:
		armed := false
		for _, t := range n.ticker.scheduled {
			if t.Height == verifH && t.Round == cs.Round && t.Step == cs.Step {
				armed = true
			}
		}
		v.Assert(armed, "C04.L2.waiting-step-without-timeout")
		v.Cover("armed")
	}
}
