package consensus

import (
	cstypes "github.com/kardiachain/go-kardia/consensus/types"
	kproto "github.com/kardiachain/go-kardia/proto/kardiachain/types"
)

// VerifC04_L1: a genuine timeout for the node's current (height, round, step) strictly advances
// (round, step); a stale one changes nothing and signs nothing; when the new step is a waiting
// step a timeout for it is armed (so no step can be waited in forever).
func VerifC04_L1(v *VerifV) {
	verifV = v
	n := verifMkNode(v)
	cs := n.cs
	cs.blockOperations = verifBlockOps{}
	R := uint32(1 + v.Choice("round", 2))
	steps := []cstypes.RoundStepType{cstypes.RoundStepPropose, cstypes.RoundStepPrevoteWait, cstypes.RoundStepPrecommitWait}
	s := steps[v.Choice("step", 3)]
	cs.Round, cs.Step = R, s
	cs.Votes.SetRound(R + 1)
	if s == cstypes.RoundStepPrecommitWait {
		// PrecommitWait is armed without advancing Step beyond Precommit
		cs.Step = cstypes.RoundStepPrecommit
		cs.TriggeredTimeoutPrecommit = true
	}
	if s != cstypes.RoundStepPropose {
		// the waiting steps are entered only with +2/3 of anything: provide nil votes
		t := kproto.PrevoteType
		for i := 1; i < 4; i++ {
			_, _ = cs.Votes.AddVote(n.verifVoteFrom(v, i, t, R, 0), "peer")
		}
	}
	stale := v.Choice("stale", 3) // 0 genuine, 1 older round, 2 older step
	ti := timeoutInfo{Height: verifH, Round: R, Step: s}
	switch stale {
	case 1:
		if R == 1 {
			v.Assume(false)
		}
		ti.Round = R - 1
	case 2:
		if s == cstypes.RoundStepPropose || s == cstypes.RoundStepPrecommitWait {
			v.Assume(false)
		}
		ti.Step = cstypes.RoundStepPropose
	}
	r0, s0 := cs.Round, cs.Step
	cs.handleTimeout(ti, cs.RoundState)
	if stale != 0 {
		v.Cover("stale")
		v.Assert(cs.Round == r0 && cs.Step == s0, "C04.L1.stale-timeout-changed-state")
		v.Assert(len(n.pv.signed) == 0, "C04.L1.stale-timeout-signed")
		return
	}
	v.Cover("genuine")
	v.Assert(cs.Round > r0 || (cs.Round == r0 && cs.Step > s0), "C04.L1.timeout-did-not-advance")
	switch cs.Step {
	case cstypes.RoundStepPropose, cstypes.RoundStepPrevoteWait, cstypes.RoundStepPrecommitWait:
		armed := false
		for _, t := range n.ticker.scheduled {
			if t.Height == verifH && t.Round == cs.Round && t.Step == cs.Step {
				armed = true
			}
		}
		v.Assert(armed, "C04.L2.waiting-step-without-timeout")
		v.Cover("armed")
	}
}

// VerifC04_L3: votes drive progress. The node is in round R at the prevote or precommit step;
// the votes of the three other validators (type prevote or precommit, round R or R+1, each for
// nil / A / B or absent) arrive one by one through the real addVote. Afterwards, whenever more
// than 2/3 of the power has voted in a round:
//   - prevotes of the current round, node still at the prevote step: the node has moved on
//     (precommitted on a polka) or waits with a prevote timeout armed;
//   - precommits of the current round: the node has committed / moved to the next round, or a
//     precommit timeout is armed (split precommits must not park the round);
//   - votes of a later round: the node has skipped to that round.
func VerifC04_L3(v *VerifV) {
	verifV = v
	n := verifMkNode(v)
	cs := n.cs
	cs.blockOperations = verifBlockOps{}
	R := uint32(1 + v.Choice("round", 2))
	cs.Round = R
	cs.Step = cstypes.RoundStepPrevote
	if v.Choice("step", 2) == 1 {
		cs.Step = cstypes.RoundStepPrecommit
	}
	cs.Votes.SetRound(R + 1)
	t := kproto.PrevoteType
	if v.Choice("type", 2) == 1 {
		t = kproto.PrecommitType
	}
	vr := R + uint32(v.Choice("vote-round", 2))
	step0 := cs.Step
	cast := 0
	targets := map[int]int{}
	for i := 1; i < 4; i++ {
		blk := v.Choice("target", 4) // 0 nil, 1 A, 2 B, 3 absent
		if blk == 3 {
			continue
		}
		r0, s0 := cs.Round, cs.Step
		_, err := cs.addVote(n.verifVoteFrom(v, i, t, vr, blk), "peer")
		v.Assert(err == nil, "C04.L3.addvote-error")
		// a vote never moves the node backwards within the height (each step is entered once per round)
		v.Assert(cs.Height > verifH || cs.Round > r0 || (cs.Round == r0 && cs.Step >= s0), "C03.step.went-backwards")
		cast++
		targets[blk]++
	}
	if cast < 3 {
		v.Cover("below-two-thirds")
		return // 2 of 4 is not more than 2/3
	}
	v.Cover("two-thirds-any")
	majority := false
	for _, c := range targets {
		if c == 3 {
			majority = true
		}
	}
	if !majority {
		v.Cover("split")
	}
	armed := func(step cstypes.RoundStepType) bool {
		for _, ti := range n.ticker.scheduled {
			if ti.Height == verifH && ti.Round == R && ti.Step == step {
				return true
			}
		}
		return false
	}
	switch {
	case vr > R:
		v.Assert(cs.Round >= vr || cs.Height > verifH || cs.Step == cstypes.RoundStepCommit, "C04.L3.no-round-skip-on-two-thirds-of-later-round")
		v.Cover("later-round")
	case t == kproto.PrevoteType && step0 == cstypes.RoundStepPrevote:
		moved := cs.Round > R || cs.Step > cstypes.RoundStepPrevoteWait
		v.Assert(moved || (cs.Step == cstypes.RoundStepPrevoteWait && armed(cstypes.RoundStepPrevoteWait)), "C04.L3.prevotes-two-thirds-any-but-no-progress-and-no-timeout")
		v.Cover("prevotes-current-round")
	case t == kproto.PrecommitType:
		moved := cs.Round > R || cs.Height > verifH || cs.Step == cstypes.RoundStepCommit
		v.Assert(moved || armed(cstypes.RoundStepPrecommitWait), "C04.L3.precommits-two-thirds-any-but-no-progress-and-no-timeout")
		v.Cover("precommits-current-round")
	}
}
