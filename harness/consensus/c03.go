package consensus

import (
	"crypto/ecdsa"
	"errors"
	"io"
	"time"

	cfg "github.com/kardiachain/go-kardia/configs"
	cstypes "github.com/kardiachain/go-kardia/consensus/types"
	"github.com/kardiachain/go-kardia/kai/state/cstate"
	cmn "github.com/kardiachain/go-kardia/lib/common"
	kevents "github.com/kardiachain/go-kardia/lib/events"
	"github.com/kardiachain/go-kardia/lib/log"
	kproto "github.com/kardiachain/go-kardia/proto/kardiachain/types"
	"github.com/kardiachain/go-kardia/types"
)

// ---- recording collaborators

type verifSigned struct {
	typ     kproto.SignedMsgType
	height  uint64
	round   uint32
	blockID types.BlockID
}

type verifPV struct {
	addr   cmn.Address
	signed []verifSigned
	props  int
}

func (p *verifPV) GetPubKey() ecdsa.PublicKey { return ecdsa.PublicKey{} }
func (p *verifPV) GetAddress() cmn.Address    { return p.addr }
func (p *verifPV) SignVote(chainID string, vote *kproto.Vote) error {
	id, _ := types.BlockIDFromProto(&vote.BlockID)
	p.signed = append(p.signed, verifSigned{vote.Type, vote.Height, vote.Round, *id})
	vote.Signature = []byte{0xfe, byte(len(p.signed))}
	return nil
}
func (p *verifPV) SignProposal(chainID string, proposal *kproto.Proposal) error {
	p.props++
	proposal.Signature = []byte{0xfd}
	return nil
}
func (p *verifPV) ExtractIntoValidator(votingPower int64) *types.Validator { return nil }

type verifWAL struct{ log *[]string }

func (w verifWAL) Write(m WALMessage) error {
	if _, ok := m.(EndHeightMessage); ok {
		*w.log = append(*w.log, "wal-endheight")
	}
	return nil
}
func (w verifWAL) WriteSync(m WALMessage) error {
	if _, ok := m.(EndHeightMessage); ok {
		*w.log = append(*w.log, "wal-endheight")
	}
	return nil
}
func (w verifWAL) FlushAndSync() error { return nil }
func (w verifWAL) SearchForEndHeight(height int64, options *WALSearchOptions) (rd io.ReadCloser, found bool, err error) {
	return nil, false, nil
}
func (w verifWAL) Start() error { return nil }
func (w verifWAL) Stop() error  { return nil }
func (w verifWAL) Wait()        {}

type verifTicker struct{ scheduled []timeoutInfo }

func (t *verifTicker) Start() error                    { return nil }
func (t *verifTicker) Stop() error                     { return nil }
func (t *verifTicker) Chan() <-chan timeoutInfo        { return nil }
func (t *verifTicker) ScheduleTimeout(ti timeoutInfo)  { t.scheduled = append(t.scheduled, ti) }
func (t *verifTicker) SetLogger(l log.Logger)           {}

// ---- blocks are opaque tokens; attributes by stub

type verifBlk struct {
	id    types.BlockID
	valid bool
}

var verifBlks map[*types.Block]*verifBlk
var verifValidated map[*types.Block]bool
var verifOpsLog []string

func verifStubBlockHash(b *types.Block) cmn.Hash {
	if b == nil {
		return cmn.Hash{}
	}
	return verifBlks[b].id.Hash
}
func verifStubBlockTime(b *types.Block) time.Time { return types.VerifTS() }
func verifStubValidateBlock(be *cstate.BlockExecutor, st cstate.LatestBlockState, b *types.Block) error {
	if verifBlks[b].valid {
		verifValidated[b] = true
		return nil
	}
	return errors.New("invalid block")
}
func verifStubNow() time.Time { return types.VerifTS() }

const verifH = 5

type verifNode struct {
	cs     *ConsensusState
	pv     *verifPV
	ticker *verifTicker
	blocks [3]*types.Block // index 1 = A, 2 = B
	parts  [3]*types.PartSet
	vals   *types.ValidatorSet
}

// verifMkNode: a validator (index 0 of 4 equal validators) at height verifH.
func verifMkNode(v *VerifV) *verifNode {
	types.VerifBind()
	verifBlks = make(map[*types.Block]*verifBlk)
	verifValidated = make(map[*types.Block]bool)
	verifOpsLog = nil
	vals := make([]*types.Validator, 4)
	for i := range vals {
		vals[i] = &types.Validator{Address: types.VerifAddr(i), VotingPower: 1}
	}
	vs := &types.ValidatorSet{Validators: vals}
	n := &verifNode{pv: &verifPV{addr: types.VerifAddr(0)}, ticker: &verifTicker{}, vals: vs}
	for k := 1; k <= 2; k++ {
		b := &types.Block{}
		id := types.VerifBlockID(k)
		verifBlks[b] = &verifBlk{id: id, valid: true}
		n.blocks[k] = b
		n.parts[k] = types.NewPartSetFromHeader(id.PartsHeader)
	}
	cs := &ConsensusState{
		config:           &cfg.ConsensusConfig{},
		privValidator:    n.pv,
		blockExec:        &cstate.BlockExecutor{},
		internalMsgQueue: make(chan msgInfo, 16),
		peerMsgQueue:     make(chan msgInfo, 16),
		timeoutTicker:    n.ticker,
		wal:              verifWAL{&verifOpsLog},
		evsw:             kevents.NewEventSwitch(),
		eventBus:         &types.EventBus{},
		state:            cstate.LatestBlockState{ChainID: types.VerifChain, InitialHeight: 1, LastBlockHeight: verifH - 1, Validators: vs, NextValidators: vs, LastValidators: vs},
	}
	cs.Logger = verifNopLogger{}
	cs.Height = verifH
	cs.Validators = vs
	cs.Votes = cstypes.NewHeightVoteSet(verifNopLogger{}, types.VerifChain, verifH, vs)
	n.cs = cs
	return n
}

// verifVoteFrom adds a genuine vote of validator i to the node's vote sets through the real AddVote.
func (n *verifNode) verifVoteFrom(v *VerifV, i int, t kproto.SignedMsgType, r uint32, blk int) *types.Vote {
	vote, genuine := types.VerifSignedVote(i, uint32(i), t, verifH, r, types.VerifBlockID(blk))
	v.Assume(genuine)
	return vote
}

func (n *verifNode) lockOn(blk int, round uint32) {
	n.cs.LockedBlock, n.cs.LockedBlockParts, n.cs.LockedRound = n.blocks[blk], n.parts[blk], round
}
func (n *verifNode) propose(blk int) {
	n.cs.ProposalBlock, n.cs.ProposalBlockParts = n.blocks[blk], n.parts[blk]
}

// VerifC03_N1a: entering prevote from an arbitrary lock/proposal state.
// Rules: exactly one prevote is signed for (H, round); a locked validator prevotes its locked
// block (never another block, and never nil: the nil case is what agreement needs, C01 premise R3+);
// an unlocked validator prevotes the proposal block only after validating it, else nil.
func VerifC03_N1a(v *VerifV) {
	verifV = v
	n := verifMkNode(v)
	cs := n.cs
	R := uint32(1 + v.Choice("round", 3))
	cs.Round, cs.Step = R, cstypes.RoundStepPropose
	cs.Votes.SetRound(R)
	locked := v.Choice("locked", 3) // 0 none, 1 A, 2 B
	if locked != 0 {
		lr := uint32(1 + v.Choice("locked-round", int(R)))
		n.lockOn(locked, lr)
		v.Cover("locked")
	}
	prop := v.Choice("proposal", 3)
	if prop != 0 {
		n.propose(prop)
		if v.Choice("proposal-invalid", 2) == 1 {
			verifBlks[n.blocks[prop]].valid = false
			v.Cover("invalid-proposal")
		}
	}
	cs.enterPrevote(verifH, R)

	v.Assert(len(n.pv.signed) == 1, "C03.prevote.not-exactly-one-signature")
	if len(n.pv.signed) != 1 {
		return
	}
	s := n.pv.signed[0]
	v.Assert(s.typ == kproto.PrevoteType && s.height == verifH && s.round == R, "C03.prevote.wrong-step-signed")
	v.Assert(cs.Step == cstypes.RoundStepPrevote && cs.Round == R, "C03.prevote.step-not-advanced")
	switch {
	case locked != 0:
		v.Assert(s.blockID.IsZero() || s.blockID.Equal(types.VerifBlockID(locked)), "C03.rule3.locked-validator-prevotes-other-block")
		v.Assert(s.blockID.Equal(types.VerifBlockID(locked)), "C01.premise.R3plus.locked-validator-prevotes-nil")
	case prop != 0 && verifBlks[n.blocks[prop]].valid:
		v.Assert(s.blockID.Equal(types.VerifBlockID(prop)), "C03.prevote.valid-proposal-not-prevoted")
		v.Assert(verifValidated[n.blocks[prop]], "C03.prevote.block-prevoted-without-validation")
		v.Cover("prevote-proposal")
	default:
		v.Assert(s.blockID.IsZero(), "C03.prevote.invalid-or-missing-block-prevoted")
		v.Cover("prevote-nil")
	}
	// re-entry signs nothing more
	cs.enterPrevote(verifH, R)
	v.Assert(len(n.pv.signed) == 1, "C03.prevote.signed-twice")
}

// VerifC03_N1b: entering precommit with an arbitrary set of received prevotes.
// Rules: exactly one precommit for (H, round); for a block X only if +2/3 prevotes for X were
// received in that round and the node holds X (locked or proposal) - and has validated it;
// afterwards it is locked on X at this round; a polka for nil or for an unknown block unlocks.
func VerifC03_N1b(v *VerifV) {
	verifV = v
	n := verifMkNode(v)
	cs := n.cs
	R := uint32(1 + v.Choice("round", 2))
	cs.Round, cs.Step = R, cstypes.RoundStepPrevote
	cs.Votes.SetRound(R)
	locked := v.Choice("locked", 3)
	if locked != 0 {
		n.lockOn(locked, uint32(1+v.Choice("locked-round", int(R))))
		verifValidated[n.blocks[locked]] = true // invariant I2: a locked block was validated when prevoted
	}
	prop := v.Choice("proposal", 3)
	validatedProp := false
	if prop != 0 {
		n.propose(prop)
		// the proposal block may have become complete only after the node prevoted (nil): not validated
		if v.Choice("proposal-validated", 2) == 1 {
			verifValidated[n.blocks[prop]] = true
			validatedProp = true
		} else if v.Choice("proposal-invalid", 2) == 1 {
			verifBlks[n.blocks[prop]].valid = false
		}
	}
	// received prevotes of this round: each other validator votes nil/A/B or not at all
	tally := [3]int{}
	for i := 1; i < 4; i++ {
		c := v.Choice("prevote", 4)
		if c == 3 {
			continue
		}
		added, err := cs.Votes.AddVote(n.verifVoteFrom(v, i, kproto.PrevoteType, R, c), "peer")
		v.Assert(added && err == nil, "C03.setup.vote-not-added")
		tally[c]++
	}
	polka := -1
	for b := 0; b < 3; b++ {
		if 3*tally[b] > 2*4 {
			polka = b
		}
	}
	cs.enterPrecommit(verifH, R)

	v.Assert(len(n.pv.signed) == 1, "C03.precommit.not-exactly-one-signature")
	if len(n.pv.signed) != 1 {
		return
	}
	s := n.pv.signed[0]
	v.Assert(s.typ == kproto.PrecommitType && s.height == verifH && s.round == R, "C03.precommit.wrong-step-signed")
	if !s.blockID.IsZero() {
		v.Cover("precommit-block")
		x := 0
		for b := 1; b <= 2; b++ {
			if s.blockID.Equal(types.VerifBlockID(b)) {
				x = b
			}
		}
		v.Assert(x != 0 && polka == x, "C03.rule2.precommit-without-polka")
		v.Assert(x != 0 && (locked == x || prop == x), "C03.rule2.precommit-for-block-not-held")
		if x != 0 {
			v.Assert(verifValidated[n.blocks[x]], "C03.rule2.precommit-for-unvalidated-block")
			v.Assert(cs.LockedBlock == n.blocks[x] && cs.LockedRound == R, "C03.precommit.not-locked-on-precommitted-block")
		}
	} else {
		v.Cover("precommit-nil")
		if polka == 0 {
			v.Assert(cs.LockedBlock == nil && cs.LockedRound == 0, "C03.precommit.nil-polka-does-not-unlock")
			v.Cover("nil-polka")
		}
		if polka > 0 && (locked == polka || (prop == polka && validatedProp)) {
			v.Fail("C03.precommit.polka-for-held-block-not-precommitted")
		}
		if polka < 0 && locked != 0 {
			v.Assert(cs.LockedBlock == n.blocks[locked], "C03.precommit.unlocked-without-polka")
		}
	}
	cs.enterPrecommit(verifH, R)
	v.Assert(len(n.pv.signed) == 1, "C03.precommit.signed-twice")
}

// VerifC03_N1c: the unlock rule in addVote. A validator locked on A at round L, now in round Rc,
// receives the prevote that completes a polka for B (or nil) at round r. It may drop the lock
// only if L < r <= Rc.
func VerifC03_N1c(v *VerifV) {
	verifV = v
	n := verifMkNode(v)
	cs := n.cs
	Rc := uint32(2 + v.Choice("current-round", 2)) // 2..3
	L := uint32(1 + v.Choice("locked-round", int(Rc)))
	r := uint32(1 + v.Choice("polka-round", int(Rc)+1)) // 1..Rc+1
	cs.Round, cs.Step = Rc, cstypes.RoundStepPropose
	cs.Votes.SetRound(Rc)
	n.lockOn(1, L)
	other := v.Choice("polka-for", 2) * 2 // 0 = nil, 2 = B
	for i := 1; i < 3; i++ {
		_, err := cs.Votes.AddVote(n.verifVoteFrom(v, i, kproto.PrevoteType, r, other), "peer")
		v.Assert(err == nil, "C03.setup.vote-not-added")
	}
	last := n.verifVoteFrom(v, 3, kproto.PrevoteType, r, other)
	_, err := cs.addVote(last, "peer")
	v.Assert(err == nil, "C03.unlock.addvote-error")
	unlocked := cs.LockedBlock == nil
	allowed := L < r && r <= Rc
	if unlocked {
		v.Cover("unlocked")
		v.Assert(allowed, "C03.rule3.unlocked-on-polka-outside-window")
		v.Assert(cs.LockedRound == 0 && cs.LockedBlockParts == nil, "C03.unlock.partial")
	} else {
		v.Cover("still-locked")
		v.Assert(cs.LockedBlock == n.blocks[1] && cs.LockedRound == L, "C03.unlock.lock-changed")
		if r <= Rc {
			v.Assert(!allowed, "C03.unlock.stale-lock-kept-despite-later-polka")
		}
	}
}
