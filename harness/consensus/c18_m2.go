package consensus

import (
	"net"

	cstypes "github.com/kardiachain/go-kardia/consensus/types"
	cmn "github.com/kardiachain/go-kardia/lib/common"
	"github.com/kardiachain/go-kardia/lib/log"
	"github.com/kardiachain/go-kardia/lib/p2p"
	kconn "github.com/kardiachain/go-kardia/lib/p2p/conn"
	"github.com/kardiachain/go-kardia/lib/service"
	kproto "github.com/kardiachain/go-kardia/proto/kardiachain/types"
	"github.com/kardiachain/go-kardia/types"
)

// ---- a peer as the reactor sees it -------------------------------------------------------------

type verifPeer struct {
	kv   map[string]interface{}
	sent int
}

func (p *verifPeer) Start() error                  { return nil }
func (p *verifPeer) OnStart() error                { return nil }
func (p *verifPeer) Stop() error                   { return nil }
func (p *verifPeer) OnStop()                       {}
func (p *verifPeer) Reset() error                  { return nil }
func (p *verifPeer) OnReset() error                { return nil }
func (p *verifPeer) IsRunning() bool               { return true }
func (p *verifPeer) Quit() <-chan struct{}         { return nil }
func (p *verifPeer) String() string                { return "peer" }
func (p *verifPeer) SetLogger(log.Logger)          {}
func (p *verifPeer) FlushStop()                    {}
func (p *verifPeer) ID() p2p.ID                    { return "peer-1" }
func (p *verifPeer) RemoteIP() net.IP              { return nil }
func (p *verifPeer) RemoteAddr() net.Addr          { return nil }
func (p *verifPeer) IsOutbound() bool              { return false }
func (p *verifPeer) IsPersistent() bool            { return false }
func (p *verifPeer) CloseConn() error              { return nil }
func (p *verifPeer) NodeInfo() p2p.NodeInfo        { return nil }
func (p *verifPeer) Status() kconn.ConnectionStatus { return kconn.ConnectionStatus{} }
func (p *verifPeer) SocketAddr() *p2p.NetAddress   { return nil }
func (p *verifPeer) Send(byte, []byte) bool        { p.sent++; return true }
func (p *verifPeer) TrySend(byte, []byte) bool     { p.sent++; return true }
func (p *verifPeer) Set(k string, x interface{})   { p.kv[k] = x }
func (p *verifPeer) Get(k string) interface{}      { return p.kv[k] }

var _ service.Service = (*verifPeer)(nil)

var verifIncoming Message

// stub for decodeMsg: the wire decoding (MsgFromProto over the generated Unmarshal) is M1's and
// C13's subject; here the decoded message is what the harness built
func verifStubDecodeMsg([]byte) (Message, error) { return verifIncoming, nil }

// stubs for the service/switch plumbing around the handler
func verifStubIsRunning(*service.BaseService) bool             { return true }
func verifStubStopPeerForError(*p2p.Switch, p2p.Peer, interface{}) { verifPeerStopped = true }

var verifPeerStopped bool

// VerifC18_M2: ConsensusManager.Receive itself for every message kind it handles synchronously
// (NewRoundStep, NewValidBlock, HasVote, VoteSetMaj23 with its VoteSetBits reply, ProposalPOL,
// VoteSetBits) with symbolic heights, rounds, types, indices and block ids, against a node that
// holds votes for rounds 0 and 1 of its height: no message makes Receive panic; a message that
// fails ValidateBasic stops the peer and changes nothing.
func VerifC18_M2(v *VerifV) {
	n := verifMkNode(v)
	cs := n.cs
	cs.Votes.SetRound(1)
	// some votes the node has
	for i := 1; i <= 2; i++ {
		_, err := cs.Votes.AddVote(n.verifVoteFrom(v, i, kproto.PrevoteType, 0, 1), "peer-0")
		v.Assert(err == nil, "C18.setup.vote-not-added")
	}
	conR := &ConsensusManager{conS: cs}
	conR.Logger = verifNopLogger{}
	peer := &verifPeer{kv: map[string]interface{}{}}
	ps := NewPeerState(peer)
	ps.SetLogger(verifNopLogger{})
	peer.Set(types.PeerStateKey, ps)
	ps.PRS.Height, ps.PRS.Round = verifH, 0
	ps.EnsureVoteBitArrays(verifH, 4)

	height := uint64(verifH)
	if v.Bool("other-height") {
		height = v.U64("height")
	}
	round := v.U32("round")
	typ := kproto.SignedMsgType(v.Choice("type", 4)) // 0 unknown, 1 prevote, 2 precommit, 3 = 32 proposal
	if typ == 3 {
		typ = kproto.ProposalType
	}
	id := types.VerifBlockID(1 + v.Choice("block", 2))
	if v.Bool("nil-block") {
		id = types.BlockID{}
	}
	ch := byte(StateChannel)
	switch v.Choice("kind", 7) {
	case 0:
		step := cstypes.RoundStepType(v.U8("step"))
		verifIncoming = &NewRoundStepMessage{Height: height, Round: round, Step: step, SecondsSinceStartTime: uint64(v.U8("secs")), LastCommitRound: v.U32("lcr")}
		v.Cover("new-round-step")
	case 1:
		idx := v.U32("index")
		verifIncoming = &HasVoteMessage{Height: height, Round: round, Type: typ, Index: idx}
		v.Cover("has-vote")
	case 2:
		verifIncoming = &VoteSetMaj23Message{Height: height, Round: round, Type: typ, BlockID: id}
		v.Cover("vote-set-maj23")
	case 3:
		ch = VoteSetBitsChannel
		var bits *cmn.BitArray
		switch v.Choice("bits", 3) {
		case 1:
			bits = cmn.NewBitArray(4)
		case 2:
			bits = cmn.NewBitArray(int(v.U8("nbits")))
		}
		verifIncoming = &VoteSetBitsMessage{Height: height, Round: round, Type: typ, BlockID: id, Votes: bits}
		v.Cover("vote-set-bits")
	case 4:
		ch = DataChannel
		var bits *cmn.BitArray
		if v.Bool("has-bits") {
			bits = cmn.NewBitArray(int(v.U8("nbits")))
		}
		verifIncoming = &ProposalPOLMessage{Height: height, ProposalPOLRound: round, ProposalPOL: bits}
		v.Cover("proposal-pol")
	case 5:
		var bits *cmn.BitArray
		if v.Bool("has-bits") {
			bits = cmn.NewBitArray(int(v.U8("nbits")))
		}
		verifIncoming = &NewValidBlockMessage{Height: height, Round: round, BlockPartsHeader: id.PartsHeader, BlockParts: bits, IsCommit: v.Bool("is-commit")}
		v.Cover("new-valid-block")
	case 6:
		ch = DataChannel
		pid := id
		pid.PartsHeader.Total = v.U32("announced-parts")
		verifIncoming = &ProposalMessage{Proposal: &types.Proposal{Height: height, Round: round, POLRound: 0,
			POLBlockID: pid, Timestamp: types.VerifTS(), Signature: make([]byte, 65)}}
		v.Cover("proposal")
	}
	verifPeerStopped = false
	wasValid := verifIncoming.ValidateBasic() == nil
	conR.Receive(ch, peer, []byte{1})
	if !wasValid {
		v.Assert(verifPeerStopped, "C18.receive.invalid-message-not-punished")
		v.Assert(peer.sent == 0, "C18.receive.reply-to-invalid-message")
		v.Cover("invalid")
	} else {
		v.Cover("handled")
	}
	if peer.sent > 0 {
		v.Cover("replied")
	}
}
