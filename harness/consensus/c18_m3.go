package consensus

import (
	cstypes "github.com/kardiachain/go-kardia/consensus/types"
	cmn "github.com/kardiachain/go-kardia/lib/common"
	"github.com/kardiachain/go-kardia/lib/merkle"
	kproto "github.com/kardiachain/go-kardia/proto/kardiachain/types"
	"github.com/kardiachain/go-kardia/types"
)

func verifSymBits(v *VerifV) *cmn.BitArray {
	switch v.Choice("bits", 3) {
	case 0:
		return nil
	case 1:
		b := cmn.NewBitArray(3)
		b.SetIndex(1, v.Bool("bit"))
		return b
	}
	b := cmn.NewBitArray(70) // two words
	b.SetIndex(0, v.Bool("bit"))
	b.SetIndex(69, v.Bool("bit"))
	return b
}

func verifSameBits(a, b *cmn.BitArray) bool {
	if a == nil || b == nil {
		return (a == nil || a.Size() == 0) && (b == nil || b.Size() == 0)
	}
	if a.Size() != b.Size() {
		return false
	}
	for i := 0; i < a.Size(); i++ {
		if a.GetIndex(i) != b.GetIndex(i) {
			return false
		}
	}
	return true
}

// VerifC18_M3: every well-formed consensus message (one that passes ValidateBasic) survives
// MsgToProto followed by MsgFromProto unchanged, field by field, including nil / one-word /
// two-word bit arrays.
func VerifC18_M3(v *VerifV) {
	verifV = v
	types.VerifBind()
	h, r := v.U64("height"), v.U32("round")
	typ := kproto.SignedMsgType(v.Choice("type", 3)) // 0 unknown, 1 prevote, 2 precommit
	id := types.VerifBlockID(1)
	if v.Bool("nil-block") {
		id = types.BlockID{}
	}
	var in Message
	switch v.Choice("kind", 9) {
	case 0:
		in = &NewRoundStepMessage{Height: h, Round: r, Step: cstypes.RoundStepType(v.U8("step")), SecondsSinceStartTime: v.U64("secs"), LastCommitRound: v.U32("lcr")}
	case 1:
		in = &NewValidBlockMessage{Height: h, Round: r, BlockPartsHeader: types.PartSetHeader{Total: uint32(v.U8("total")), Hash: id.PartsHeader.Hash}, BlockParts: verifSymBits(v), IsCommit: v.Bool("is-commit")}
	case 2:
		in = &ProposalMessage{Proposal: &types.Proposal{Height: h, Round: r, POLRound: v.U32("pol-round"), POLBlockID: id, Timestamp: types.VerifTS(), Signature: []byte{1, 2, 3}}}
	case 3:
		in = &ProposalPOLMessage{Height: h, ProposalPOLRound: r, ProposalPOL: verifSymBits(v)}
	case 4:
		pb := v.Bytes("part-bytes", v.Len("part-len", 0, 2))
		in = &BlockPartMessage{Height: h, Round: r, Part: &types.Part{Index: v.U32("part-index"), Bytes: pb,
			Proof: merkle.SimpleProof{Total: uint64(v.U8("ptotal")), Index: uint64(v.U8("pindex")), LeafHash: make([]byte, 32)}}}
	case 5:
		in = &VoteMessage{Vote: &types.Vote{Type: typ, Height: h, Round: r, BlockID: id, Timestamp: types.VerifTS(),
			ValidatorAddress: types.VerifAddr(1), ValidatorIndex: v.U32("val-index"), Signature: []byte{9}}}
	case 6:
		in = &HasVoteMessage{Height: h, Round: r, Type: typ, Index: v.U32("index")}
	case 7:
		in = &VoteSetMaj23Message{Height: h, Round: r, Type: typ, BlockID: id}
	case 8:
		in = &VoteSetBitsMessage{Height: h, Round: r, Type: typ, BlockID: id, Votes: verifSymBits(v)}
	}
	wellFormed := in.ValidateBasic() == nil
	if pm, ok := in.(*ProposalMessage); ok {
		// the message-level check leaves the proposal's own validity to the decoder
		wellFormed = wellFormed && pm.Proposal.ValidateBasic() == nil
	}
	if !wellFormed {
		// encoding is only ever applied to messages the node built itself; what a peer controls is
		// the decoding direction, which M1 covers for malformed wire content
		v.Cover("malformed")
		return
	}
	pb, err := MsgToProto(in)
	v.Cover("well-formed")
	v.Assert(err == nil && pb != nil, "C18.codec.well-formed-message-not-encodable")
	if err != nil || pb == nil {
		return
	}
	out, err := MsgFromProto(pb)
	v.Assert(err == nil && out != nil, "C18.codec.well-formed-message-rejected-after-encoding")
	if err != nil || out == nil {
		return
	}
	same := false
	switch a := in.(type) {
	case *NewRoundStepMessage:
		b, ok := out.(*NewRoundStepMessage)
		same = ok && *a == *b
	case *NewValidBlockMessage:
		b, ok := out.(*NewValidBlockMessage)
		same = ok && a.Height == b.Height && a.Round == b.Round && a.BlockPartsHeader == b.BlockPartsHeader && a.IsCommit == b.IsCommit && verifSameBits(a.BlockParts, b.BlockParts)
	case *ProposalMessage:
		b, ok := out.(*ProposalMessage)
		same = ok && b.Proposal != nil && a.Proposal.Height == b.Proposal.Height && a.Proposal.Round == b.Proposal.Round && a.Proposal.POLRound == b.Proposal.POLRound &&
			a.Proposal.POLBlockID.Equal(b.Proposal.POLBlockID) && a.Proposal.Timestamp.Equal(b.Proposal.Timestamp) && string(a.Proposal.Signature) == string(b.Proposal.Signature)
	case *ProposalPOLMessage:
		b, ok := out.(*ProposalPOLMessage)
		same = ok && a.Height == b.Height && a.ProposalPOLRound == b.ProposalPOLRound && verifSameBits(a.ProposalPOL, b.ProposalPOL)
	case *BlockPartMessage:
		b, ok := out.(*BlockPartMessage)
		same = ok && b.Part != nil && a.Height == b.Height && a.Round == b.Round && a.Part.Index == b.Part.Index && len(a.Part.Bytes) == len(b.Part.Bytes) &&
			a.Part.Proof.Total == b.Part.Proof.Total && a.Part.Proof.Index == b.Part.Proof.Index
		if same {
			for i := range a.Part.Bytes {
				v.Assert(a.Part.Bytes[i] == b.Part.Bytes[i], "C18.codec.round-trip-changed-the-message")
			}
		}
	case *VoteMessage:
		b, ok := out.(*VoteMessage)
		same = ok && b.Vote != nil && a.Vote.Type == b.Vote.Type && a.Vote.Height == b.Vote.Height && a.Vote.Round == b.Vote.Round && a.Vote.BlockID.Equal(b.Vote.BlockID) &&
			a.Vote.ValidatorAddress == b.Vote.ValidatorAddress && a.Vote.ValidatorIndex == b.Vote.ValidatorIndex && a.Vote.Timestamp.Equal(b.Vote.Timestamp) && string(a.Vote.Signature) == string(b.Vote.Signature)
	case *HasVoteMessage:
		b, ok := out.(*HasVoteMessage)
		same = ok && *a == *b
	case *VoteSetMaj23Message:
		b, ok := out.(*VoteSetMaj23Message)
		same = ok && a.Height == b.Height && a.Round == b.Round && a.Type == b.Type && a.BlockID.Equal(b.BlockID)
	case *VoteSetBitsMessage:
		b, ok := out.(*VoteSetBitsMessage)
		same = ok && a.Height == b.Height && a.Round == b.Round && a.Type == b.Type && a.BlockID.Equal(b.BlockID) && verifSameBits(a.Votes, b.Votes)
	}
	v.Assert(same, "C18.codec.round-trip-changed-the-message")
}

// VerifC18_M4: setProposal on a proposal for the node's height and round with a symbolic POLRound
// and a genuine or forged proposer signature: an accepted proposal is signed by the round's
// proposer and its POLRound is 0 (no POL) or a round before the proposal round - which is what
// the gossip routine relies on when it sends the prevote bit array of that round: the vote set of
// an accepted proposal's POLRound exists and the ProposalPOL message built from it encodes.
func VerifC18_M4(v *VerifV) {
	n := verifMkNode(v)
	cs := n.cs
	R := uint32(1 + v.Choice("round", 3))
	cs.Round = R
	cs.Votes.SetRound(R)
	cs.Validators.Proposer = cs.Validators.Validators[1]
	pol := v.U32("pol-round")
	prop := &types.Proposal{Height: verifH, Round: R, POLRound: pol, POLBlockID: types.VerifBlockID(1), Timestamp: types.VerifTS()}
	sig, genuine := types.VerifNewSig(types.VerifAddr(1), types.ProposalSignBytes(types.VerifChain, prop.ToProto()))
	prop.Signature = sig
	err := cs.setProposal(prop)
	if err != nil || cs.Proposal == nil {
		v.Cover("refused")
		v.Assert(cs.Proposal == nil, "C18.proposal.refused-but-kept")
		return
	}
	v.Cover("accepted")
	v.Assert(genuine, "C03.proposal.accepted-with-forged-signature")
	v.Assert(pol == 0 || pol < R, "C18.proposal.accepted-with-pol-round-not-before-the-round")
	if pol > 0 {
		// gossipDataRoutine (manager.go): "rs.Proposal was validated, so we definitely have Prevotes(POLRound)"
		vs := cs.Votes.Prevotes(pol)
		v.Assert(vs != nil, "C18.proposal.gossip-has-no-vote-set-for-accepted-pol-round")
		if vs != nil {
			_ = MustEncode(&ProposalPOLMessage{Height: cs.Height, ProposalPOLRound: pol, ProposalPOL: vs.BitArray()})
			v.Cover("pol-gossiped")
		}
	}
}
