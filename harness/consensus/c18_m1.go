package consensus

import (
	cstypes "github.com/kardiachain/go-kardia/consensus/types"
	cmn "github.com/kardiachain/go-kardia/lib/common"
	kcons "github.com/kardiachain/go-kardia/proto/kardiachain/consensus"
	kbits "github.com/kardiachain/go-kardia/proto/kardiachain/libs/bits"
	kproto "github.com/kardiachain/go-kardia/proto/kardiachain/types"
)

// verifWireBits: a bit array as the generated Unmarshal can produce it: Bits and Elems are
// independent fields of the wire message.
func verifWireBits(v *VerifV) kbits.BitArray {
	b := kbits.BitArray{Bits: v.I64("bits")}
	n := v.Len("elems", 0, 2)
	for i := 0; i < n; i++ {
		b.Elems = append(b.Elems, v.U64("elem"))
	}
	return b
}

// VerifC18_M1: a peer's NewValidBlock / ProposalPOL / VoteSetBits / HasVote message, as decoded,
// goes through the real MsgFromProto (+ValidateBasic) and the PeerState updates the reactor's
// Receive performs, followed by the bit-array operations the reactor and its gossip routines
// perform on the stored arrays. No step may panic.
func VerifC18_M1(v *VerifV) {
	verifV = v
	const H, R = 5, 2
	N := v.Param("N") // validators / parts known locally
	ps := &PeerState{logger: verifNopLogger{}, PRS: cstypes.PeerRoundState{Height: H, Round: R, ProposalPOLRound: 1,
		Prevotes: cmn.NewBitArray(N), Precommits: cmn.NewBitArray(N), ProposalPOL: cmn.NewBitArray(N)}}
	switch v.Choice("kind", 3) {
	case 0:
		v.Cover("new-valid-block")
		wb := verifWireBits(v)
		total := v.U32("total")
		// announced part count: free above a few boundary sizes only through the size cap
		if c := []uint32{0, 1, 64, 65, 130, 1 << 20}[v.Choice("total-class", 6)]; c != 1<<20 {
			v.Assume(total == c)
		} else {
			v.Assume(total > 1601)
		}
		hash := make([]byte, 32)
		hash[0] = 1
		pb := &kcons.Message{Sum: &kcons.Message_NewValidBlock{NewValidBlock: &kcons.NewValidBlock{Height: H, Round: R,
			BlockPartSetHeader: kproto.PartSetHeader{Total: total, Hash: hash}, BlockParts: &wb}}}
		m, err := MsgFromProto(pb)
		if err != nil {
			v.Cover("rejected")
			return
		}
		v.Cover("accepted")
		msg := m.(*NewValidBlockMessage)
		ps.ApplyNewValidBlockMessage(msg)
		// a later BlockPartMessage from the same peer (Receive: SetHasProposalBlockPart)
		idx := v.U32("part-index")
		ps.SetHasProposalBlockPart(H, R, int(idx))
		// gossipDataRoutine: our part set has the header the peer announced
		ours := cmn.NewBitArray(int(msg.BlockPartsHeader.Total))
		if ours != nil {
			ours.SetIndex(0, true)
			_, _ = ours.Sub(ps.PRS.ProposalBlockParts.Copy()).PickRandom()
		}
	case 1:
		v.Cover("proposal-pol")
		wb := verifWireBits(v)
		pb := &kcons.Message{Sum: &kcons.Message_ProposalPol{ProposalPol: &kcons.ProposalPOL{Height: H, ProposalPolRound: 1, ProposalPol: wb}}}
		m, err := MsgFromProto(pb)
		if err != nil {
			v.Cover("rejected")
			return
		}
		v.Cover("accepted")
		ps.ApplyProposalPOLMessage(m.(*ProposalPOLMessage))
		// a later HasVote for the POL round (index of one of our validators)
		idx := v.U32("val-index")
		v.Assume(int(idx) < N)
		ps.ApplyHasVoteMessage(&HasVoteMessage{Height: H, Round: 1, Type: kproto.PrevoteType, Index: idx})
		// gossipVotesRoutine: PickSendVote -> votes.BitArray().Sub(psVotes)
		ours := cmn.NewBitArray(N)
		ours.SetIndex(0, true)
		_, _ = ours.Sub(ps.PRS.ProposalPOL).PickRandom()
	case 2:
		v.Cover("vote-set-bits")
		wb := verifWireBits(v)
		hash := make([]byte, 32)
		hash[0] = 1
		pb := &kcons.Message{Sum: &kcons.Message_VoteSetBits{VoteSetBits: &kcons.VoteSetBits{Height: H, Round: R, Type: kproto.PrevoteType,
			BlockID: kproto.BlockID{Hash: hash, PartSetHeader: kproto.PartSetHeader{Total: 1, Hash: hash}}, Votes: wb}}}
		m, err := MsgFromProto(pb)
		if err != nil {
			v.Cover("rejected")
			return
		}
		v.Cover("accepted")
		var ours *cmn.BitArray
		if v.Choice("we-have-votes", 2) == 1 {
			ours = cmn.NewBitArray(N)
			ours.SetIndex(0, true)
		}
		ps.ApplyVoteSetBitsMessage(m.(*VoteSetBitsMessage), ours)
		// and the array is used afterwards
		idx := v.U32("val-index")
		v.Assume(int(idx) < N)
		ps.ApplyHasVoteMessage(&HasVoteMessage{Height: H, Round: R, Type: kproto.PrevoteType, Index: idx})
	}
}

// Stub for lib/common.RandIntn (the global generator is seeded from the OS in an init the
// engine does not run): any value in range.
func verifStubRandIntn(n int) int {
	x := verifV.Int("rand")
	verifV.Assume(x >= 0 && x < n)
	return x
}
