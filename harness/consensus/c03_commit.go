package consensus

import (
	cstypes "github.com/kardiachain/go-kardia/consensus/types"
	"github.com/kardiachain/go-kardia/kai/state/cstate"
	stypes "github.com/kardiachain/go-kardia/mainchain/staking/types"
	cmn "github.com/kardiachain/go-kardia/lib/common"
	kproto "github.com/kardiachain/go-kardia/proto/kardiachain/types"
	"github.com/kardiachain/go-kardia/types"
)

type verifBlockOps struct{}

var verifSavedBlock, verifAppliedBlock *types.Block
var verifSavedCommit *types.Commit

func (verifBlockOps) Base() uint64                                { return 0 }
func (verifBlockOps) Height() uint64                              { return verifH - 1 }
func (verifBlockOps) LoadBlock(height uint64) *types.Block        { return nil }
func (verifBlockOps) LoadBlockCommit(height uint64) *types.Commit { return nil }
func (verifBlockOps) LoadSeenCommit(height uint64) *types.Commit  { return nil }
func (verifBlockOps) CreateProposalBlock(height uint64, state cstate.LatestBlockState, proposerAddr cmn.Address, commit *types.Commit) (*types.Block, *types.PartSet) {
	return nil, nil
}
func (verifBlockOps) CommitAndValidateBlockTxs(block *types.Block, lastCommit stypes.LastCommitInfo, byzVals []stypes.Evidence) ([]*types.Validator, cmn.Hash, error) {
	return nil, cmn.Hash{}, nil
}
func (verifBlockOps) SaveBlock(block *types.Block, partSet *types.PartSet, seenCommit *types.Commit) {
	verifOpsLog = append(verifOpsLog, "save")
	verifSavedBlock, verifSavedCommit = block, seenCommit
}
func (verifBlockOps) LoadBlockPart(height uint64, index int) *types.Part { return nil }
func (verifBlockOps) LoadBlockMeta(height uint64) *types.BlockMeta       { return nil }

func verifStubApplyBlock(be *cstate.BlockExecutor, st cstate.LatestBlockState, id types.BlockID, b *types.Block) (cstate.LatestBlockState, uint64, error) {
	verifOpsLog = append(verifOpsLog, "apply")
	verifAppliedBlock = b
	return st, 0, nil
}
func verifStubUpdateToState(cs *ConsensusState, st cstate.LatestBlockState) {
	verifOpsLog = append(verifOpsLog, "update-state")
}
func verifStubScheduleRound0(cs *ConsensusState, rs *cstypes.RoundState) {}
func verifStubBlockHeight(b *types.Block) uint64                        { return verifH }
func verifStubBlockNumTxs(b *types.Block) uint64                        { return 0 }

// VerifC03_N1d: the precommit that completes +2/3 for X at round r arrives. The node stores and
// applies a block only if it is X, it holds X and X validates against its state, after +2/3
// precommits of one round, in the order save < WAL end-height < apply (C05 support); if it does
// not hold X it switches to fetching X's parts (C04 L4: it must not wedge in the commit step).
func VerifC03_N1d(v *VerifV) {
	verifV = v
	n := verifMkNode(v)
	cs := n.cs
	cs.blockOperations = verifBlockOps{}
	verifSavedBlock, verifAppliedBlock, verifSavedCommit = nil, nil, nil
	Rc := uint32(1 + v.Choice("current-round", 2))
	r := uint32(1 + v.Choice("commit-round", int(Rc)))
	cs.Round = Rc
	cs.Step = cstypes.RoundStepPrevote
	if v.Choice("step", 2) == 1 {
		cs.Step = cstypes.RoundStepPrecommit
	}
	cs.Votes.SetRound(Rc + 1)
	X := 1 + v.Choice("commit-block", 2)
	holds := v.Choice("holds", 4) // 0 nothing, 1 proposal X, 2 locked X, 3 proposal other
	switch holds {
	case 1:
		n.propose(X)
	case 2:
		n.lockOn(X, r)
	case 3:
		n.propose(3 - X)
	}
	invalid := false
	if holds == 1 || holds == 2 {
		if v.Choice("block-invalid", 2) == 1 {
			verifBlks[n.blocks[X]].valid = false
			invalid = true
		}
	}
	for i := 1; i < 3; i++ {
		_, err := cs.Votes.AddVote(n.verifVoteFrom(v, i, kproto.PrecommitType, r, X), "peer")
		v.Assert(err == nil, "C03.setup.vote-not-added")
	}
	last := n.verifVoteFrom(v, 3, kproto.PrecommitType, r, X)
	_, err := cs.addVote(last, "peer")
	v.Assert(err == nil, "C03.commit.addvote-error")

	v.Assert(cs.Step == cstypes.RoundStepCommit && cs.CommitRound == r, "C03.commit.commit-step-not-entered")
	if verifSavedBlock != nil || verifAppliedBlock != nil {
		v.Cover("committed")
		v.Assert(holds == 1 || holds == 2, "C03.commit.block-not-held-committed")
		v.Assert(!invalid, "C03.commit.invalid-block-committed")
		v.Assert(verifSavedBlock == n.blocks[X] && verifAppliedBlock == n.blocks[X], "C03.commit.other-block-committed")
		v.Assert(verifValidated[n.blocks[X]], "C03.commit.block-committed-without-validation")
		pos := map[string]int{}
		for i, s := range verifOpsLog {
			if _, seen := pos[s]; !seen {
				pos[s] = i + 1
			}
		}
		v.Assert(pos["save"] > 0 && pos["wal-endheight"] > pos["save"] && pos["apply"] > pos["wal-endheight"], "C05.order.save-endheight-apply")
		if verifSavedCommit != nil {
			cnt := 0
			for _, s := range verifSavedCommit.Signatures {
				if s.ForBlock() {
					cnt++
				}
			}
			v.Assert(verifSavedCommit.BlockID.Equal(types.VerifBlockID(X)) && 3*cnt > 2*4 && verifSavedCommit.Round == r, "C03.commit.seen-commit-does-not-justify-block")
		} else {
			v.Fail("C03.commit.no-seen-commit")
		}
	} else {
		v.Cover("waiting-for-block")
		v.Assert(!(holds == 1 || holds == 2) || invalid, "C04.L4.held-block-not-finalised")
		// must be set up to receive the committed block's parts
		v.Assert(cs.ProposalBlockParts != nil && cs.ProposalBlockParts.HasHeader(types.VerifBlockID(X).PartsHeader), "C04.L4.not-fetching-committed-block")
		v.Assert(cs.ProposalBlock == nil, "C04.L4.wrong-block-kept")
	}
}
