package consensus

import (
	"bytes"
	"hash/crc32"
	"io"
	"time"

	cstypes "github.com/kardiachain/go-kardia/consensus/types"
	"github.com/kardiachain/go-kardia/types"
)

var verifV *VerifV

// Stub for hash/crc32.Checksum: an uninterpreted function of the exact bytes
// (nothing is assumed about its error-detection strength).
var verifCRCInjective bool

func verifStubCRC(data []byte, tab *crc32.Table) uint32 {
	o := verifV.UF("crc32c", verifCRCInjective, 4, data)
	return uint32(o[0])<<24 | uint32(o[1])<<16 | uint32(o[2])<<8 | uint32(o[3])
}

func verifBE32(b []byte) uint32 {
	return uint32(b[0])<<24 | uint32(b[1])<<16 | uint32(b[2])<<8 | uint32(b[3])
}

// VerifC15_W1: the decoder on an arbitrary byte stream: no panic, bounded allocation,
// success only when the frame is well formed and the checksum matches exactly the bytes decoded.
func VerifC15_W1(v *VerifV) {
	verifV = v
	L := v.Len("len", 0, v.Param("L"))
	b := v.Bytes("b", L)
	if L >= 8 {
		// region of the length field: small lengths are explored completely; for large ones only
		// the rejection above the limit and the allocation bound are decided (engine cut at make)
		if v.Param("BIG") == 1 {
			v.Assume(verifBE32(b[4:8]) > 16)
		} else {
			v.Assume(verifBE32(b[4:8]) <= 16)
		}
	}
	if v.Param("PFX") == 1 && L >= 10 {
		v.Assume(b[8] == 0x0a && b[9] == 0x00) // payload starts with an (empty) time field
	}
	dec := NewWALDecoder(bytes.NewReader(b))
	msg, err := dec.Decode()
	switch {
	case err == nil:
		v.Cover("decoded")
		v.Assert(msg != nil, "C15.decode.nil-message-without-error")
		v.Assert(L >= 8, "C15.decode.success-on-short-input")
		if L >= 8 {
			length := verifBE32(b[4:8])
			v.Assert(length <= maxMsgSizeBytes, "C15.decode.length-above-limit-accepted")
			n := int(v.Concrete(uint64(length)))
			// the data buffer: the next n bytes, zero padded if the stream ran short
			data := make([]byte, n)
			copy(data, b[8:])
			v.Assert(verifBE32(b[0:4]) == verifStubCRC(data, crc32c), "C15.decode.checksum-not-over-decoded-bytes")
		}
	case err == io.EOF:
		v.Cover("eof")
		v.Assert(L == 0, "C15.decode.clean-eof-inside-record")
	default:
		v.Cover("corruption")
		v.Assert(IsDataCorruptionError(err), "C15.decode.error-not-classified-as-corruption")
		v.Assert(msg == nil, "C15.decode.message-with-error")
	}
}

// verifMkMsg: a WAL message with symbolic fields. To keep the number of varint-length
// combinations small, exactly one field per message ranges over its full width; the
// others are symbolic below 128 (one varint byte).
func verifMkMsg(v *VerifV) WALMessage {
	if v.Param("SMALL") == 1 {
		// sequence mode: small fields only
		h := v.U64("h")
		v.Assume(h < 128)
		switch v.Choice("kind", 3) {
		case 0:
			v.Cover("endheight")
			return EndHeightMessage{Height: int64(h)}
		case 1:
			v.Cover("timeout")
			return timeoutInfo{Duration: time.Duration(1000), Height: h, Round: 1, Step: cstypes.RoundStepType(3)}
		default:
			v.Cover("roundstate")
			return types.EventDataRoundState{Height: h, Round: 2, Step: "RoundStepPrevote"}
		}
	}
	small64 := func(name string) uint64 { x := v.U64(name); v.Assume(x < 128); return x }
	small32 := func(name string) uint32 { x := v.U32(name); v.Assume(x < 128); return x }
	switch v.Choice("kind", 3) {
	case 0:
		v.Cover("endheight")
		return EndHeightMessage{Height: v.I64("height")}
	case 1:
		v.Cover("timeout")
		w := 1 + v.Choice("wide", 3)
		if v.Param("WIDEDUR") == 1 {
			w = 0
		}
		ti := timeoutInfo{}
		if w == 0 {
			ti.Duration = time.Duration(v.I64("dur"))
		} else {
			ti.Duration = time.Duration(small64("dur"))
		}
		if w == 1 {
			ti.Height = v.U64("h")
		} else {
			ti.Height = small64("h")
		}
		if w == 2 {
			ti.Round = v.U32("r")
		} else {
			ti.Round = small32("r")
		}
		ti.Step = cstypes.RoundStepType(v.U8("step"))
		return ti
	default:
		v.Cover("roundstate")
		w := v.Choice("wide", 2)
		rs := types.EventDataRoundState{Step: "RoundStepPrevote"}
		if w == 0 {
			rs.Height, rs.Round = v.U64("h"), small32("r")
		} else {
			rs.Height, rs.Round = small64("h"), v.U32("r")
		}
		return rs
	}
}

func verifSameMsg(v *VerifV, a, b WALMessage, label string) {
	switch x := a.(type) {
	case EndHeightMessage:
		y, ok := b.(EndHeightMessage)
		v.Assert(ok && x.Height == y.Height, label)
	case timeoutInfo:
		y, ok := b.(timeoutInfo)
		v.Assert(ok && x.Duration == y.Duration && x.Height == y.Height && x.Round == y.Round && x.Step == y.Step, label)
	case types.EventDataRoundState:
		y, ok := b.(types.EventDataRoundState)
		v.Assert(ok && x.Height == y.Height && x.Round == y.Round && x.Step == y.Step, label)
	default:
		v.Fail(label)
	}
}

// VerifC15_W2: Encode then Decode returns the written messages, in order and unchanged;
// then clean EOF.
func VerifC15_W2(v *VerifV) {
	verifV = v
	K := v.Param("K")
	var buf bytes.Buffer
	enc := NewWALEncoder(&buf)
	msgs := make([]WALMessage, K)
	ts := time.Unix(1600000000, 5).UTC()
	for k := 0; k < K; k++ {
		msgs[k] = verifMkMsg(v)
		err := enc.Encode(&TimedWALMessage{Time: ts, Msg: msgs[k]})
		v.Assert(err == nil, "C15.roundtrip.encode-error")
	}
	dec := NewWALDecoder(bytes.NewReader(buf.Bytes()))
	for k := 0; k < K; k++ {
		got, err := dec.Decode()
		v.Assert(err == nil && got != nil, "C15.roundtrip.decode-error")
		if err == nil && got != nil {
			verifSameMsg(v, msgs[k], got.Msg, "C15.roundtrip.message-changed")
			v.Assert(got.Time.Equal(ts), "C15.roundtrip.time-changed")
		}
	}
	_, err := dec.Decode()
	v.Assert(err == io.EOF, "C15.roundtrip.no-eof-after-last")
}

// VerifC15_W3: one record followed by a second one, then a corruption of the log
// (truncation at any offset, a changed byte in the crc/length fields or anywhere,
// a garbage suffix): reading yields the original messages, end-of-log or a corruption
// error - never a different message. Assumption (listed): the CRC differs on the
// distinct buffers compared in one run (CRC32C strength itself is outside the claim).
func VerifC15_W3(v *VerifV) {
	verifV = v
	verifCRCInjective = true // listed assumption: the checksum differs on the distinct buffers compared in one run
	var buf bytes.Buffer
	enc := NewWALEncoder(&buf)
	ts := time.Unix(1600000000, 0).UTC()
	h1 := v.I64("h1")
	v.Assume(h1 >= 0 && h1 < 1<<14)
	h2, r2 := v.U64("h2"), v.U32("r2")
	v.Assume(h2 < 128 && r2 < 128)
	m1 := EndHeightMessage{Height: h1}
	m2 := timeoutInfo{Duration: time.Duration(1000), Height: h2, Round: r2, Step: cstypes.RoundStepType(v.U8("s2") & 7)}
	v.Assert(enc.Encode(&TimedWALMessage{Time: ts, Msg: m1}) == nil, "C15.corrupt.encode")
	n1 := buf.Len()
	v.Assert(enc.Encode(&TimedWALMessage{Time: ts, Msg: m2}) == nil, "C15.corrupt.encode")
	orig := append([]byte(nil), buf.Bytes()...)
	n := len(orig)
	log := append([]byte(nil), orig...)
	firstIntact := true
	switch v.Choice("fault", 3) {
	case 0: // truncation at any offset
		cut := v.Len("cut", 0, n-1)
		log = log[:cut]
		firstIntact = cut >= n1
		v.Cover("truncated")
	case 1: // one byte replaced by a different value, anywhere
		// header bytes of both records, and one payload byte of each
		cand := []int{0, 3, 4, 7, 9, n1, n1 + 3, n1 + 4, n1 + 7, n1 + 10}
		if v.Param("G") > 5 {
			cand = []int{0, 1, 2, 3, 4, 5, 6, 7, 9, n1, n1 + 1, n1 + 2, n1 + 3, n1 + 4, n1 + 5, n1 + 6, n1 + 7, n1 + 10}
		}
		pos := cand[v.Choice("pos", len(cand))]
		nb := v.U8("newbyte")
		v.Assume(nb != log[pos])
		log[pos] = nb
		firstIntact = pos >= n1
		v.Cover("byte-changed")
	case 2: // garbage suffix
		g := v.Bytes("garbage", v.Len("glen", 1, v.Param("G")))
		log = append(log, g...)
		v.Cover("garbage-suffix")
	}
	dec := NewWALDecoder(bytes.NewReader(log))
	got1, err1 := dec.Decode()
	if err1 == nil {
		verifSameMsg(v, m1, got1.Msg, "C15.corrupt.different-message-returned")
		got2, err2 := dec.Decode()
		if err2 == nil {
			verifSameMsg(v, m2, got2.Msg, "C15.corrupt.different-message-returned")
			// and whatever follows is end-of-log, corruption, or (garbage case) never one of... any message is "different"
			got3, err3 := dec.Decode()
			if err3 == nil {
				v.Assert(got3 == nil, "C15.corrupt.message-from-garbage")
			} else {
				v.Assert(err3 == io.EOF || IsDataCorruptionError(err3), "C15.corrupt.unclassified-error")
			}
		} else {
			v.Assert(err2 == io.EOF || IsDataCorruptionError(err2), "C15.corrupt.unclassified-error")
		}
	} else {
		v.Assert(!firstIntact, "C15.corrupt.intact-record-rejected")
		v.Assert(err1 == io.EOF || IsDataCorruptionError(err1), "C15.corrupt.unclassified-error")
	}
}
