package types

// C02-H3: the two threshold expressions of the vote set, for every total and sum.
// The real functions are driven on hand-built states so that the arithmetic is
// the code's own SSA, not a transcription.

import (
	kproto "github.com/kardiachain/go-kardia/proto/kardiachain/types"
)

const verifCap = MaxTotalVotingPower

// VerifC02_H3any: HasTwoThirdsAny() <=> 3*sum > 2*total, for all 0<=sum<=total<=cap.
func VerifC02_H3any(v *VerifV) {
	total := v.I64("total")
	sum := v.I64("sum")
	v.Assume(total >= 1 && total <= verifCap)
	v.Assume(sum >= 0 && sum <= total)
	vs := &VoteSet{height: 1, signedMsgType: kproto.PrevoteType, sum: sum,
		valSet: &ValidatorSet{totalVotingPower: total, Validators: []*Validator{{VotingPower: total}}}}
	got := vs.HasTwoThirdsAny()
	want := 3*sum > 2*total // no overflow: total <= MaxInt64/8
	if got {
		v.Cover("any-true")
	} else {
		v.Cover("any-false")
	}
	v.Assert(got == want, "C02.any.threshold")
	all := vs.HasAll()
	v.Assert(all == (sum == total), "C02.hasall")
}
