package types

import (
	"time"

	cmn "github.com/kardiachain/go-kardia/lib/common"
	kproto "github.com/kardiachain/go-kardia/proto/kardiachain/types"
)

// VerifC02_H2: VerifyCommit on an arbitrary commit against an independent verifier.
func VerifC02_H2(v *VerifV) {
	verifV = v
	N := v.Param("N")
	vals, p, total := verifMkVals(v, N)
	const H = 5
	want := verifBlockID(1)

	size, height, round := N, uint64(H), uint32(2)
	cid := want
	commitDev := v.Choice("commit-dev", 5)
	switch commitDev {
	case 1:
		size = N - 1
	case 2:
		size = N + 1
	case 3:
		height = H + 1
	case 4:
		cid = verifBlockID(2)
	}
	sigs := make([]CommitSig, size)
	wellFormed := true // every signature entry is acceptable per the independent rules
	tally := int64(0)
	for i := 0; i < size; i++ {
		kind := 1
		dev := 0
		if commitDev == 0 {
			kind = v.Choice("kind", 4)
			if kind == 1 || kind == 2 {
				dev = v.Choice("sig-dev", 6)
			}
		}
		signer := verifAddr(i)
		var ts time.Time = verifTS
		switch kind {
		case 0: // absent
			sigs[i] = NewCommitSigAbsent()
			continue
		case 3: // unknown flag value
			sigs[i] = CommitSig{BlockIDFlag: BlockIDFlag(4), ValidatorAddress: signer, Timestamp: ts, Signature: []byte{0xff}}
			wellFormed = false
			v.Cover("bogus-flag")
			continue
		}
		flag := BlockIDFlagCommit
		target := cid
		if kind == 2 {
			flag = BlockIDFlagNil
			target = BlockID{}
		}
		// what the signer actually signed (one deviation at most)
		t, sh, sr, sb, sa := kproto.PrecommitType, height, round, target, signer
		switch dev {
		case 1:
			t = kproto.PrevoteType
		case 2:
			sr = round + 1
		case 3:
			sb = verifBlockID(3)
		case 4:
			sa = verifAddr((i + 1) % (N + 1))
		case 5:
			sh = height + 1
		}
		sig, genuine := verifNewSig(v, sa, verifVoteTuple(t, sh, sr, sb, ts))
		sigs[i] = CommitSig{BlockIDFlag: flag, ValidatorAddress: signer, Timestamp: ts, Signature: sig}
		if dev != 0 || !genuine {
			wellFormed = false
		} else if kind == 1 && i < N {
			tally += p[i]
		}
	}
	commit := NewCommit(height, round, cid, sigs)
	err := vals.VerifyCommit(verifChain, want, H, commit)
	ok := commitDev == 0 && wellFormed && 3*tally > 2*total
	if err == nil {
		v.Cover("accepted")
		v.Assert(commitDev == 0, "C02.vc.accept-wrong-size-height-or-block")
		v.Assert(wellFormed, "C02.vc.accept-bad-signature")
		v.Assert(3*tally > 2*total, "C02.vc.accept-without-quorum")
	} else {
		v.Cover("rejected")
		v.Assert(!ok, "C02.vc.reject-good-commit")
	}
	_ = cmn.Address{}
}
