package types

import (
	"io"

	"github.com/kardiachain/go-kardia/lib/merkle"
)

// Stub for lib/merkle.Sum (SHA-256): injective uninterpreted function. Leaf/inner domain
// separation then follows from the 0x00/0x01 prefixes being part of the hashed input.
func verifStubMerkleSum(bz []byte) []byte {
	return verifV.UF("sha256", true, 32, bz)
}

// VerifC13_S1: a block split into parts; adversarial and genuine parts offered in any order;
// whatever was accepted equals the original part at that index, and the genuine parts can
// always complete the set, which then reads back exactly the original data.
func VerifC13_S1(v *VerifV) {
	verifV = v
	NP := v.Param("NP")
	K := v.Param("K")
	var data []byte
	switch v.Choice("data", 2) {
	case 0: // distinct part contents, last part short
		for i := 0; i < 2*NP-1; i++ {
			data = append(data, byte(0x10+i))
		}
	case 1: // two parts with equal content
		for i := 0; i < 2*NP-1; i++ {
			data = append(data, byte(0x20+(i%2)))
		}
		v.Cover("equal-parts")
	}
	const partSize = 2
	src := NewPartSetFromData(data, partSize)
	v.Assert(int(src.Total()) == NP && src.IsComplete(), "C13.parts.split")
	hdr := src.Header()
	ps := NewPartSetFromHeader(hdr)
	orig := func(i int) []byte { return src.GetPart(i).Bytes }

	for k := 0; k < K; k++ {
		j := v.Choice("src-part", NP)
		g := src.GetPart(j)
		p := &Part{Index: g.Index, Bytes: g.Bytes, Proof: g.Proof}
		kind := v.Choice("offer", 7)
		switch kind {
		case 0:
			v.Cover("genuine")
		case 1: // genuine part j offered at another index
			p.Index = uint32(v.Choice("as-index", NP+1))
			v.Cover("relabelled")
		case 2: // one byte of the content replaced
			nb := v.U8("newbyte")
			b := append([]byte(nil), g.Bytes...)
			b[0] = nb
			p.Bytes = b
			v.Cover("altered-bytes")
		case 3: // content of part j with the proof of part i
			i := v.Choice("proof-of", NP)
			p.Proof = src.GetPart(i).Proof
			v.Cover("foreign-proof")
		case 4: // proof claims another total / index
			pr := g.Proof
			pr.Total = uint64(v.Choice("total", NP+2))
			pr.Index = uint64(v.Choice("pindex", NP+1))
			p.Proof = pr
			p.Index = uint32(v.Choice("as-index", NP))
			v.Cover("wrong-total-or-index")
		case 5: // arbitrary leaf hash and aunts
			pr := merkle.SimpleProof{Total: g.Proof.Total, Index: g.Proof.Index, LeafHash: v.Bytes("leafhash", 32)}
			na := v.Len("aunts", 0, 2)
			for a := 0; a < na; a++ {
				pr.Aunts = append(pr.Aunts, v.Bytes("aunt", 32))
			}
			p.Proof = pr
			p.Bytes = v.Bytes("bytes", v.Len("blen", 0, 2))
			v.Cover("arbitrary-proof")
		case 6: // index out of range
			p.Index = uint32(NP + v.Choice("beyond", 2))
			v.Cover("index-out-of-range")
		}
		idx := int(p.Index)
		added, err := ps.AddPart(p)
		if added {
			v.Assert(err == nil, "C13.parts.added-with-error")
			v.Assert(idx < NP, "C13.parts.added-out-of-range")
			if idx < NP {
				o := orig(idx)
				v.Assert(len(p.Bytes) == len(o), "C13.parts.wrong-part-accepted")
				if len(p.Bytes) == len(o) {
					for x := range o {
						v.Assert(p.Bytes[x] == o[x], "C13.parts.wrong-part-accepted")
					}
				}
			}
		}
	}
	// the genuine parts can always complete the set
	for i := 0; i < NP; i++ {
		g := src.GetPart(i)
		had := ps.GetPart(i) != nil
		added, err := ps.AddPart(&Part{Index: g.Index, Bytes: g.Bytes, Proof: g.Proof})
		v.Assert(err == nil, "C13.parts.genuine-part-rejected")
		v.Assert(added || had, "C13.parts.genuine-part-blocked")
	}
	v.Assert(ps.IsComplete(), "C13.parts.cannot-complete")
	if ps.IsComplete() {
		v.Cover("complete")
		got, err := io.ReadAll(ps.GetReader())
		v.Assert(err == nil && len(got) == len(data), "C13.parts.reassembly-length")
		if err == nil && len(got) == len(data) {
			for i := range data {
				v.Assert(got[i] == data[i], "C13.parts.reassembly-differs")
			}
		}
	}
}
