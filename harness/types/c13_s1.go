package types

import (
	"io"

	"github.com/kardiachain/go-kardia/lib/common"

	"github.com/kardiachain/go-kardia/lib/merkle"
)

// Stub for lib/merkle.Sum (SHA-256): injective uninterpreted function. Leaf/inner domain
// separation then follows from the 0x00/0x01 prefixes being part of the hashed input.
func verifStubMerkleSum(bz []byte) []byte {
	return verifV.UF("sha256", true, 32, bz)
}

// VerifC13_S1: a block split into parts; adversarial and genuine parts offered in any order;
// whatever was accepted equals the original part at that index, and the genuine parts can
// always complete the set, which then reads back exactly the original data.
func VerifC13_S1(v *VerifV) {
	verifV = v
	NP := v.Param("NP")
	K := v.Param("K")
	var data []byte
	switch v.Choice("data", 2) {
	case 0: // distinct part contents, last part short
		for i := 0; i < 2*NP-1; i++ {
			data = append(data, byte(0x10+i))
		}
	case 1: // two parts with equal content
		for i := 0; i < 2*NP-1; i++ {
			data = append(data, byte(0x20+(i%2)))
		}
		v.Cover("equal-parts")
	}
	const partSize = 2
	src := NewPartSetFromData(data, partSize)
	v.Assert(int(src.Total()) == NP && src.IsComplete(), "C13.parts.split")
	hdr := src.Header()
	ps := NewPartSetFromHeader(hdr)
	orig := func(i int) []byte { return src.GetPart(i).Bytes }

	for k := 0; k < K; k++ {
		j := v.Choice("src-part", NP)
		g := src.GetPart(j)
		p := &Part{Index: g.Index, Bytes: g.Bytes, Proof: g.Proof}
		kind := v.Choice("offer", 7)
		switch kind {
		case 0:
			v.Cover("genuine")
		case 1: // genuine part j offered at another index
			p.Index = uint32(v.Choice("as-index", NP+1))
			v.Cover("relabelled")
		case 2: // one byte of the content replaced
			nb := v.U8("newbyte")
			b := append([]byte(nil), g.Bytes...)
			b[0] = nb
			p.Bytes = b
			v.Cover("altered-bytes")
		case 3: // content of part j with the proof of part i
			i := v.Choice("proof-of", NP)
			p.Proof = src.GetPart(i).Proof
			v.Cover("foreign-proof")
		case 4: // proof claims another total / index
			pr := g.Proof
			pr.Total = uint64(v.Choice("total", NP+2))
			pr.Index = uint64(v.Choice("pindex", NP+1))
			p.Proof = pr
			p.Index = uint32(v.Choice("as-index", NP))
			v.Cover("wrong-total-or-index")
		case 5: // arbitrary leaf hash and aunts
			pr := merkle.SimpleProof{Total: g.Proof.Total, Index: g.Proof.Index, LeafHash: v.Bytes("leafhash", 32)}
			na := v.Len("aunts", 0, 2)
			for a := 0; a < na; a++ {
				pr.Aunts = append(pr.Aunts, v.Bytes("aunt", 32))
			}
			p.Proof = pr
			p.Bytes = v.Bytes("bytes", v.Len("blen", 0, 2))
			v.Cover("arbitrary-proof")
		case 6: // index out of range
			p.Index = uint32(NP + v.Choice("beyond", 2))
			v.Cover("index-out-of-range")
		}
		idx := int(p.Index)
		added, err := ps.AddPart(p)
		if added {
			v.Assert(err == nil, "C13.parts.added-with-error")
			v.Assert(idx < NP, "C13.parts.added-out-of-range")
			if idx < NP {
				o := orig(idx)
				v.Assert(len(p.Bytes) == len(o), "C13.parts.wrong-part-accepted")
				if len(p.Bytes) == len(o) {
					for x := range o {
						v.Assert(p.Bytes[x] == o[x], "C13.parts.wrong-part-accepted")
					}
				}
			}
		}
	}
	// the genuine parts can always complete the set
	for i := 0; i < NP; i++ {
		g := src.GetPart(i)
		had := ps.GetPart(i) != nil
		added, err := ps.AddPart(&Part{Index: g.Index, Bytes: g.Bytes, Proof: g.Proof})
		v.Assert(err == nil, "C13.parts.genuine-part-rejected")
		v.Assert(added || had, "C13.parts.genuine-part-blocked")
	}
	v.Assert(ps.IsComplete(), "C13.parts.cannot-complete")
	if ps.IsComplete() {
		v.Cover("complete")
		got, err := io.ReadAll(ps.GetReader())
		v.Assert(err == nil && len(got) == len(data), "C13.parts.reassembly-length")
		if err == nil && len(got) == len(data) {
			for i := range data {
				v.Assert(got[i] == data[i], "C13.parts.reassembly-differs")
			}
		}
	}
}

// VerifC13_S6: a proposer may commit to any list of parts, including empty ones (honest
// splitting never produces them). For every part list of NP parts with lengths in 0..2 and
// symbolic bytes: the parts with their proofs are all accepted by a set created from the header,
// the set becomes complete, and its reader yields exactly the concatenation the header hash
// commits to - read with any buffer size.
func VerifC13_S6(v *VerifV) {
	verifV = v
	NP := v.Param("NP")
	var partsBytes [][]byte
	var data []byte
	for i := 0; i < NP; i++ {
		n := v.Choice("part-len", 3)
		b := v.Bytes("part", n)
		if n == 0 {
			b = []byte{}
			if i > 0 && i < NP-1 {
				v.Cover("empty-middle-part")
			}
		}
		partsBytes = append(partsBytes, b)
		data = append(data, b...)
	}
	root, proofs := merkle.SimpleProofsFromByteSlices(partsBytes)
	ps := NewPartSetFromHeader(PartSetHeader{Total: uint32(NP), Hash: common.BytesToHash(root)})
	for i := 0; i < NP; i++ {
		added, err := ps.AddPart(&Part{Index: uint32(i), Bytes: partsBytes[i], Proof: *proofs[i]})
		v.Assert(added && err == nil, "C13.parts.committed-part-rejected")
	}
	v.Assert(ps.IsComplete(), "C13.parts.cannot-complete")
	if !ps.IsComplete() {
		return
	}
	rd := ps.GetReader()
	bufLen := 1 + v.Choice("buffer", 4)
	var got []byte
	for guard := 0; guard < 4*NP+4; guard++ {
		buf := make([]byte, bufLen)
		n, err := rd.Read(buf)
		got = append(got, buf[:n]...)
		if err != nil {
			v.Assert(err == io.EOF, "C13.parts.reader-error")
			break
		}
	}
	v.Assert(len(got) == len(data), "C13.parts.reassembly-length")
	if len(got) == len(data) {
		for i := range data {
			v.Assert(got[i] == data[i], "C13.parts.reassembly-differs")
		}
	}
	v.Cover("read-back")
}
