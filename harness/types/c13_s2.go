package types

import (
	"bytes"

	cmn "github.com/kardiachain/go-kardia/lib/common"
	"github.com/kardiachain/go-kardia/lib/merkle"
	kproto "github.com/kardiachain/go-kardia/proto/kardiachain/types"
)

// ---- S5: the transaction/receipt root commits to every element of the list

type verifList struct {
	n    int
	tags []byte
}

func (l *verifList) Len() int { return l.n }
func (l *verifList) EncodeIndex(i int, w *bytes.Buffer) {
	w.WriteByte(0xE0)
	w.WriteByte(byte(i))
	w.WriteByte(byte(i >> 8))
}

type verifRecHasher struct {
	keys, vals [][]byte
}

func (h *verifRecHasher) Reset() { h.keys, h.vals = nil, nil }
func (h *verifRecHasher) Update(k, val []byte) error {
	h.keys = append(h.keys, append([]byte(nil), k...))
	h.vals = append(h.vals, append([]byte(nil), val...))
	return nil
}
func (h *verifRecHasher) Hash() cmn.Hash { return cmn.Hash{} }

// VerifC13_S5: DeriveSha feeds every index 0..n-1 of the list to the trie exactly once
// (so the root depends on every element), for a symbolic list length n <= N.
func VerifC13_S5(v *VerifV) {
	N := v.Param("N")
	n := v.Int("n")
	v.Assume(n >= 0 && n <= N)
	list := &verifList{n: n}
	h := &verifRecHasher{}
	DeriveSha(list, h)
	cnt := int(v.Concrete(uint64(n)))
	if cnt > 0x80 {
		v.Cover("beyond-0x80")
	}
	if cnt == 0 {
		v.Cover("empty")
	}
	v.Assert(len(h.keys) == cnt, "C13.txroot.element-count")
	seen := make([]int, cnt)
	for k := range h.vals {
		val := h.vals[k]
		v.Assert(len(val) == 3 && val[0] == 0xE0, "C13.txroot.value")
		if len(val) == 3 {
			i := int(val[1]) | int(val[2])<<8
			if i < cnt {
				seen[i]++
			}
		}
	}
	for i := 0; i < cnt; i++ {
		v.Assert(seen[i] == 1, "C13.txroot.element-not-committed-exactly-once")
	}
}

// ---- S2: the header hash binds every header field (parse-back of the hashed bytes)

var verifLastHashedBytes []byte

// Stub for types.hash (Keccak of the header encoding): injective UF that records its input.
func verifStubHashBytes(b []byte) cmn.Hash {
	verifLastHashedBytes = append([]byte(nil), b...)
	var h cmn.Hash
	copy(h[:], verifV.UF("keccak-header", true, 32, b))
	return h
}

func verifSymHash(v *VerifV, name string) cmn.Hash {
	var h cmn.Hash
	copy(h[:], v.Bytes(name, 32))
	return h
}

func VerifC13_S2(v *VerifV) {
	verifV = v
	w := &verifWide{v: v, pick: v.Choice("wide-field", 5)}
	h := &Header{}
	h.Height = w.u64("height")
	h.NumTxs = w.u64("numtxs")
	h.GasLimit = w.u64("gaslimit")
	h.Time = verifSymTime(v, w)
	h.LastBlockID = BlockID{Hash: verifSymHash(v, "lastblock"), PartsHeader: PartSetHeader{Total: w.u32("parts-total"), Hash: verifSymHash(v, "parts")}}
	copy(h.ProposerAddress[:], v.Bytes("proposer", 20))
	h.LastCommitHash = verifSymHash(v, "commit")
	h.TxHash = verifSymHash(v, "tx")
	h.ValidatorsHash = verifSymHash(v, "vals")
	h.NextValidatorsHash = verifSymHash(v, "nextvals")
	h.ConsensusHash = verifSymHash(v, "cons")
	h.AppHash = verifSymHash(v, "app")
	h.EvidenceHash = verifSymHash(v, "ev")

	verifLastHashedBytes = nil
	_ = h.Hash()
	v.Assert(verifLastHashedBytes != nil, "C13.header.hash-not-over-encoding")
	var pb kproto.Header
	err := pb.Unmarshal(verifLastHashedBytes)
	v.Assert(err == nil, "C13.header.hashed-bytes-not-parseable")
	if err != nil {
		return
	}
	g, err := HeaderFromProto(&pb)
	v.Assert(err == nil, "C13.header.fromproto")
	if err != nil {
		return
	}
	v.Cover("parsed")
	v.Assert(g.Height == h.Height, "C13.header.height-not-bound")
	v.Assert(g.NumTxs == h.NumTxs, "C13.header.numtxs-not-bound")
	v.Assert(g.GasLimit == h.GasLimit, "C13.header.gaslimit-not-bound")
	v.Assert(g.Time.Equal(h.Time), "C13.header.time-not-bound")
	v.Assert(g.LastBlockID.Hash == h.LastBlockID.Hash && g.LastBlockID.PartsHeader.Hash == h.LastBlockID.PartsHeader.Hash &&
		g.LastBlockID.PartsHeader.Total == h.LastBlockID.PartsHeader.Total, "C13.header.lastblockid-not-bound")
	v.Assert(g.ProposerAddress == h.ProposerAddress, "C13.header.proposer-not-bound")
	v.Assert(g.LastCommitHash == h.LastCommitHash, "C13.header.lastcommithash-not-bound")
	v.Assert(g.TxHash == h.TxHash, "C13.header.txhash-not-bound")
	v.Assert(g.ValidatorsHash == h.ValidatorsHash, "C13.header.validatorshash-not-bound")
	v.Assert(g.NextValidatorsHash == h.NextValidatorsHash, "C13.header.nextvalidatorshash-not-bound")
	v.Assert(g.ConsensusHash == h.ConsensusHash, "C13.header.consensushash-not-bound")
	v.Assert(g.AppHash == h.AppHash, "C13.header.apphash-not-bound")
	v.Assert(g.EvidenceHash == h.EvidenceHash, "C13.header.evidencehash-not-bound")
}

// VerifC13_S7: headers, commits, block ids and parts survive their proto conversion (the form in
// which they are sent and stored) unchanged, field by field, for symbolic field values; a
// conversion that drops or crosses a field is a different block for the receiver.
func VerifC13_S7(v *VerifV) {
	verifV = v
	hb := func(tag string) cmn.Hash {
		var h cmn.Hash
		h[0], h[31] = v.U8(tag), v.U8(tag)
		return h
	}
	id := BlockID{Hash: hb("id-hash"), PartsHeader: PartSetHeader{Total: v.U32("id-total"), Hash: hb("id-parts")}}
	switch v.Choice("object", 3) {
	case 0:
		h := Header{Height: v.U64("height"), Time: verifTS, NumTxs: v.U64("numtxs"), GasLimit: v.U64("gaslimit"), LastBlockID: id,
			ProposerAddress: cmn.Address{v.U8("proposer")}, LastCommitHash: hb("lch"), TxHash: hb("txh"), ValidatorsHash: hb("vh"),
			NextValidatorsHash: hb("nvh"), ConsensusHash: hb("ch"), AppHash: hb("ah"), EvidenceHash: hb("eh")}
		if h.ValidateBasic() != nil {
			return
		}
		g, err := HeaderFromProto(h.ToProto())
		v.Assert(err == nil, "C13.codec.valid-header-rejected-after-conversion")
		if err != nil {
			return
		}
		v.Assert(g.Height == h.Height && g.Time.Equal(h.Time) && g.NumTxs == h.NumTxs && g.GasLimit == h.GasLimit, "C13.codec.header-field-changed")
		v.Assert(g.LastBlockID.Equal(h.LastBlockID) && g.ProposerAddress == h.ProposerAddress, "C13.codec.header-field-changed")
		v.Assert(g.LastCommitHash == h.LastCommitHash && g.TxHash == h.TxHash && g.ValidatorsHash == h.ValidatorsHash, "C13.codec.header-field-changed")
		v.Assert(g.NextValidatorsHash == h.NextValidatorsHash && g.ConsensusHash == h.ConsensusHash && g.AppHash == h.AppHash && g.EvidenceHash == h.EvidenceHash, "C13.codec.header-field-changed")
		v.Cover("header")
	case 1:
		flag := []BlockIDFlag{BlockIDFlagAbsent, BlockIDFlagCommit, BlockIDFlagNil}[v.Choice("flag", 3)]
		cs := CommitSig{BlockIDFlag: flag}
		if flag != BlockIDFlagAbsent {
			cs.ValidatorAddress, cs.Timestamp, cs.Signature = cmn.Address{v.U8("val")}, verifTS, []byte{v.U8("sig"), 2}
		}
		c := NewCommit(v.U64("height"), v.U32("round"), id, []CommitSig{cs, NewCommitSigAbsent()})
		if c.ValidateBasic() != nil {
			return
		}
		g, err := CommitFromProto(c.ToProto())
		v.Assert(err == nil && g != nil, "C13.codec.valid-commit-rejected-after-conversion")
		if err != nil || g == nil {
			return
		}
		v.Assert(g.Height == c.Height && g.Round == c.Round && g.BlockID.Equal(c.BlockID) && len(g.Signatures) == 2, "C13.codec.commit-field-changed")
		if len(g.Signatures) == 2 {
			a, b := g.Signatures[0], c.Signatures[0]
			v.Assert(a.BlockIDFlag == b.BlockIDFlag && a.ValidatorAddress == b.ValidatorAddress && a.Timestamp.Equal(b.Timestamp) && string(a.Signature) == string(b.Signature), "C13.codec.commit-signature-changed")
			v.Assert(g.Signatures[1].Absent(), "C13.codec.commit-signature-changed")
		}
		v.Cover("commit")
	case 2:
		p := &Part{Index: v.U32("index"), Bytes: v.Bytes("bytes", v.Len("len", 0, 3)),
			Proof: merkle.SimpleProof{Total: v.U64("ptotal"), Index: v.U64("pindex"), LeafHash: hb("leaf").Bytes(), Aunts: [][]byte{hb("aunt").Bytes()}}}
		pb, err := p.ToProto()
		if err != nil || p.ValidateBasic() != nil {
			return
		}
		g, err := PartFromProto(pb)
		v.Assert(err == nil && g != nil, "C13.codec.valid-part-rejected-after-conversion")
		if err != nil || g == nil {
			return
		}
		v.Assert(g.Index == p.Index && len(g.Bytes) == len(p.Bytes) && g.Proof.Total == p.Proof.Total && g.Proof.Index == p.Proof.Index, "C13.codec.part-field-changed")
		v.Assert(bytes.Equal(g.Proof.LeafHash, p.Proof.LeafHash) && len(g.Proof.Aunts) == 1 && bytes.Equal(g.Proof.Aunts[0], p.Proof.Aunts[0]), "C13.codec.part-proof-changed")
		if len(g.Bytes) == len(p.Bytes) {
			for i := range p.Bytes {
				v.Assert(g.Bytes[i] == p.Bytes[i], "C13.codec.part-field-changed")
			}
		}
		v.Cover("part")
	}
}

// VerifC13_S8: the body of a block is bound to its header: starting from a block built by
// NewBlock (a LastCommit with two signatures, no or one piece of evidence), every change to the
// body alone - evidence removed, added or exchanged, a commit signature byte changed, a commit
// signature dropped or its flag changed - leaves Block.Hash() as it was (the header is
// untouched) and must therefore make ValidateBasic fail. The unchanged block validates.
func VerifC13_S8(v *VerifV) {
	verifV = v
	mkEv := func(tag byte) Evidence {
		vote := func(b byte) *Vote {
			return &Vote{Type: kproto.PrecommitType, Height: 4, Round: 1, BlockID: BlockID{Hash: cmn.Hash{b}, PartsHeader: PartSetHeader{Total: 1, Hash: cmn.Hash{b, 1}}},
				Timestamp: verifTS, ValidatorAddress: cmn.Address{tag}, ValidatorIndex: 0, Signature: []byte{tag, 7}}
		}
		return &DuplicateVoteEvidence{VoteA: vote(1), VoteB: vote(2), TotalVotingPower: 30, ValidatorPower: 10, Timestamp: verifTS}
	}
	sig := func(i byte) CommitSig {
		return NewCommitSigForBlock([]byte{i, v.U8("sig-byte")}, cmn.Address{0xA0, i}, verifTS)
	}
	prevID := BlockID{Hash: cmn.Hash{9}, PartsHeader: PartSetHeader{Total: 1, Hash: cmn.Hash{9, 1}}}
	commit := NewCommit(4, 1, prevID, []CommitSig{sig(1), sig(2)})
	var evs []Evidence
	withEv := v.Bool("carries-evidence")
	if withEv {
		evs = []Evidence{mkEv(1)}
		v.Cover("carries-evidence")
	}
	header := &Header{Height: 5, Time: verifTS, LastBlockID: prevID, ProposerAddress: cmn.Address{0xA0, 1}}
	b := NewBlock(header, nil, commit, evs, nil)
	v.Assert(b.ValidateBasic(nil) == nil, "C13.body.consistent-block-fails-basic-validation")
	h0 := b.Hash()
	// the same header with another body
	c2 := CopyCommit(commit)
	ev2 := append([]Evidence(nil), evs...)
	switch v.Choice("mutation", 6) {
	case 0:
		if !withEv {
			v.Assume(false)
		}
		ev2 = nil
		v.Cover("evidence-removed")
	case 1:
		ev2 = append(ev2, mkEv(2))
	case 2:
		if !withEv {
			v.Assume(false)
		}
		ev2 = []Evidence{mkEv(3)}
	case 3:
		nb := v.U8("new-sig-byte")
		v.Assume(nb != c2.Signatures[0].Signature[1])
		c2.Signatures[0].Signature = []byte{1, nb}
		v.Cover("commit-signature-changed")
	case 4:
		c2.Signatures = c2.Signatures[:1]
	case 5:
		c2.Signatures[1] = NewCommitSigAbsent()
	}
	c2.hash = cmn.Hash{} // a received commit has no cached hash
	m := &Block{header: CopyHeader(b.header), lastCommit: c2, evidence: &EvidenceData{Evidence: ev2}}
	v.Assert(m.Hash() == h0, "C13.body.setup-header-changed")
	v.Assert(m.ValidateBasic(nil) != nil, "C13.body.changed-body-accepted-under-the-same-hash")
}
