package types

import (
	cmn "github.com/kardiachain/go-kardia/lib/common"
)

type verifMember struct {
	addrRank int
	present  bool
	power    int64
	prio     int64
	isNew    bool
}

// VerifC12_P2: UpdateWithChangeSet on an arbitrary set with an arbitrary change list,
// against an independent statement of the rules: all-or-nothing, rejects duplicates,
// negative power, power above the cap, removal of unknown validators, emptying the set
// and totals above the cap; result independent of the order of the entries; newcomers
// start at -1.125*TVP; total cached correctly; result sorted (power desc, address asc).
func VerifC12_P2(v *VerifV) {
	N0 := v.Len("n0", 1, v.Param("N0"))
	K := v.Len("k", 1, v.Param("K"))
	U := v.Param("U") // address universe: ranks 0..U-1; existing validators take ranks 1 and 3
	existingRank := []int{1, 3}
	univ := make([]verifMember, U)
	for r := range univ {
		univ[r].addrRank = r
	}
	vals := make([]*Validator, N0)
	total := int64(0)
	for i := 0; i < N0; i++ {
		p := v.I64("power")
		v.Assume(p >= 1 && p <= MaxTotalVotingPower)
		total += p
		v.Assume(total <= MaxTotalVotingPower)
		pr := v.I64("prio")
		v.Assume(pr >= -2*MaxTotalVotingPower && pr <= 2*MaxTotalVotingPower)
		r := existingRank[i]
		vals[i] = &Validator{Address: verifAddr(r), VotingPower: p, ProposerPriority: pr}
		univ[r] = verifMember{addrRank: r, present: true, power: p, prio: pr}
	}
	set := &ValidatorSet{Validators: vals}
	set.Proposer = vals[0]
	_ = set.TotalVotingPower()
	orig := set.Copy()

	// the change list
	changes := make([]*Validator, K)
	chRank := make([]int, K)
	chPow := make([]int64, K)
	for k := 0; k < K; k++ {
		chRank[k] = v.Choice("addr", U)
		chPow[k] = v.I64("newpower")
		changes[k] = &Validator{Address: verifAddr(chRank[k]), VotingPower: chPow[k]}
	}

	// ---- independent statement of the rules
	expectErr := false
	for k := 0; k < K; k++ {
		for j := 0; j < k; j++ {
			if chRank[j] == chRank[k] {
				expectErr = true
				v.Cover("duplicate")
			}
		}
		if chPow[k] < 0 {
			expectErr = true
			v.Cover("negative")
		}
		if chPow[k] > MaxTotalVotingPower {
			expectErr = true
			v.Cover("above-cap")
		}
		if chPow[k] == 0 && !univ[chRank[k]].present {
			expectErr = true
			v.Cover("remove-unknown")
		}
	}
	final := append([]verifMember(nil), univ...)
	tvpBeforeRemovals := total
	if !expectErr {
		for k := 0; k < K; k++ {
			m := &final[chRank[k]]
			if chPow[k] == 0 {
				m.present = false
				continue
			}
			if m.present {
				tvpBeforeRemovals += chPow[k] - m.power
			} else {
				tvpBeforeRemovals += chPow[k]
				m.isNew = true
			}
			m.present = true
			m.power = chPow[k]
		}
		newTotal := int64(0)
		n := 0
		over := false
		for r := range final {
			if final[r].present {
				n++
				newTotal += final[r].power // each <= cap, at most 4 members: no int64 overflow
				if newTotal > MaxTotalVotingPower {
					over = true
				}
			}
		}
		if n == 0 {
			expectErr = true
			v.Cover("emptied")
		}
		if over {
			expectErr = true
			v.Cover("total-above-cap")
		}
	}

	// expected content: newcomers at -1.125*TVP (TVP after updates, before removals), then window+centre
	var exp []verifSpecVal
	newTotal := int64(0)
	if !expectErr {
		for r := range final {
			if final[r].present {
				pr := final[r].prio
				if final[r].isNew {
					pr = -(tvpBeforeRemovals + (tvpBeforeRemovals >> 3))
					v.Cover("newcomer")
				}
				exp = append(exp, verifSpecVal{addrRank: r, power: final[r].power, prio: pr})
				newTotal += final[r].power
			}
		}
		if v.Param("RESC") == 0 {
			// region: the updated set needs no rescaling (the rescale step itself is P1w/P1r's subject)
			max, min := exp[0].prio, exp[0].prio
			for _, x := range exp[1:] {
				if x.prio > max {
					max = x.prio
				}
				if x.prio < min {
					min = x.prio
				}
			}
			v.Assume(max-min <= 2*newTotal)
		}
	}

	err := set.UpdateWithChangeSet(changes)

	v.Assert((err != nil) == expectErr, "C12.update.accept-reject-differs-from-rules")
	if err != nil {
		v.Cover("rejected")
		// all-or-nothing
		v.Assert(len(set.Validators) == len(orig.Validators), "C12.update.rejected-but-changed")
		for i := range orig.Validators {
			if i < len(set.Validators) {
				a, b := set.Validators[i], orig.Validators[i]
				v.Assert(a.Address == b.Address && a.VotingPower == b.VotingPower && a.ProposerPriority == b.ProposerPriority,
					"C12.update.rejected-but-changed")
			}
		}
		v.Assert(set.totalVotingPower == orig.totalVotingPower, "C12.update.rejected-but-total-changed")
		return
	}
	if expectErr {
		return
	}
	v.Cover("accepted")
	verifSpecRescaleAndCentre(exp, v)
	v.Assert(len(set.Validators) == len(exp), "C12.update.membership")
	v.Assert(set.totalVotingPower == newTotal && set.TotalVotingPower() == newTotal, "C12.update.total-cache")
	for _, val := range set.Validators {
		found := false
		for _, e := range exp {
			if val.Address == verifAddr(e.addrRank) {
				found = true
				v.Assert(val.VotingPower == e.power, "C12.update.power")
				v.Assert(val.ProposerPriority == e.prio, "C12.update.priority-differs-from-spec")
			}
		}
		v.Assert(found, "C12.update.membership")
	}
	for i := 1; i < len(set.Validators); i++ {
		a, b := set.Validators[i-1], set.Validators[i]
		v.Assert(a.VotingPower > b.VotingPower || (a.VotingPower == b.VotingPower && verifLess(a.Address, b.Address)),
			"C12.update.sorted")
	}
	// order independence (also C06-D1): the reversed list gives the same set
	if K == 2 && v.Param("ORD") == 1 {
		set2 := orig.Copy()
		err2 := set2.UpdateWithChangeSet([]*Validator{changes[1].Copy(), changes[0].Copy()})
		v.Assert(err2 == nil, "C12.update.order-dependent-error")
		if err2 == nil {
			v.Assert(len(set2.Validators) == len(set.Validators), "C12.update.order-dependent")
			for i := range set.Validators {
				if i < len(set2.Validators) {
					a, b := set.Validators[i], set2.Validators[i]
					v.Assert(a.Address == b.Address && a.VotingPower == b.VotingPower && a.ProposerPriority == b.ProposerPriority,
						"C12.update.order-dependent")
				}
			}
		}
	}
}

func verifLess(a, b cmn.Address) bool {
	for i := range a {
		if a[i] != b[i] {
			return a[i] < b[i]
		}
	}
	return false
}
