package types

import (
	"encoding/binary"
	"time"

	kproto "github.com/kardiachain/go-kardia/proto/kardiachain/types"
)

// verifWide: exactly one field per run ranges over its full width; the others are
// symbolic below 128 (keeps the number of varint-length combinations small).
type verifWide struct {
	v    *VerifV
	pick int
	n    int
}

func (w *verifWide) u64(name string) uint64 {
	x := w.v.U64(name)
	if w.n != w.pick {
		w.v.Assume(x < 128)
	}
	w.n++
	return x
}
func (w *verifWide) u32(name string) uint32 {
	x := w.v.U32(name)
	if w.n != w.pick {
		w.v.Assume(x < 128)
	}
	w.n++
	return x
}

// verifSymBlockID: nil, complete, or one of the two incomplete shapes, with symbolic hashes.
func verifSymBlockID(v *VerifV, w *verifWide) kproto.BlockID {
	kind := v.Choice("blockid-kind", 4)
	var id kproto.BlockID
	total := w.u32("parts-total")
	switch kind {
	case 0: // nil vote: as Vote.ToProto produces it (zero hash bytes, zero header)
		id.Hash = make([]byte, 32)
		id.PartSetHeader.Hash = make([]byte, 32)
		v.Cover("blockid-nil")
	case 1: // complete
		id.Hash = v.Bytes("hash", 32)
		id.PartSetHeader.Hash = v.Bytes("parts-hash", 32)
		id.PartSetHeader.Total = total
		v.Cover("blockid-complete")
	case 2: // hash only
		id.Hash = v.Bytes("hash", 32)
		id.PartSetHeader.Hash = make([]byte, 32)
		v.Cover("blockid-hash-only")
	case 3: // parts header only
		id.Hash = make([]byte, 32)
		id.PartSetHeader.Hash = v.Bytes("parts-hash", 32)
		id.PartSetHeader.Total = total
		v.Cover("blockid-parts-only")
	}
	return id
}

func verifAllZero(b []byte) bool {
	var acc byte
	for _, x := range b {
		acc |= x
	}
	return acc == 0
}

func verifSameBytes(v *VerifV, a, b []byte, label string) {
	v.Assert(len(a) == len(b), label)
	if len(a) == len(b) {
		var acc byte
		for i := range a {
			acc |= a[i] ^ b[i]
		}
		v.Assert(acc == 0, label)
	}
}

// verifCheckBlockID: the signed bytes carry exactly the block id of the message
// (a zero block id is carried as "absent").
func verifCheckBlockID(v *VerifV, in kproto.BlockID, got *kproto.CanonicalBlockID) {
	zero := verifAllZero(in.Hash) && verifAllZero(in.PartSetHeader.Hash) && in.PartSetHeader.Total == 0
	if zero {
		v.Assert(got == nil, "C11.signbytes.blockid-not-bound")
		return
	}
	v.Assert(got != nil, "C11.signbytes.blockid-not-bound")
	if got != nil {
		verifSameBytes(v, in.Hash, got.Hash, "C11.signbytes.block-hash-not-bound")
		verifSameBytes(v, in.PartSetHeader.Hash, got.PartSetHeader.Hash, "C11.signbytes.parts-hash-not-bound")
		v.Assert(in.PartSetHeader.Total == got.PartSetHeader.Total, "C11.signbytes.parts-total-not-bound")
	}
}

func verifStripDelimiter(v *VerifV, bz []byte) []byte {
	n, k := binary.Uvarint(bz)
	v.Assert(k > 0 && int(n) == len(bz)-k, "C11.signbytes.length-prefix")
	return bz[k:]
}

func verifSymTime(v *VerifV, w *verifWide) time.Time {
	sec := w.u64("ts-sec")
	v.Assume(sec < 1<<35)
	nsec := w.u32("ts-nsec")
	v.Assume(nsec < 1000000000)
	return time.Unix(int64(sec), int64(nsec)).UTC()
}

func verifSymChain(v *VerifV) string {
	n := v.Len("chain-len", v.Param("CHLO"), v.Param("CHHI"))
	return string(v.Bytes("chain", n))
}

// VerifC11_G1vote: every field the property names is recoverable from the real vote sign bytes.
func VerifC11_G1vote(v *VerifV) {
	w := &verifWide{v: v, pick: v.Choice("wide-field", 6)}
	chain := verifSymChain(v)
	vote := &kproto.Vote{}
	if v.Choice("type", 2) == 0 {
		vote.Type = kproto.PrevoteType
		v.Cover("prevote")
	} else {
		vote.Type = kproto.PrecommitType
		v.Cover("precommit")
	}
	vote.Height = w.u64("height")
	vote.Round = w.u32("round")
	vote.BlockID = verifSymBlockID(v, w)
	vote.Timestamp = verifSymTime(v, w)

	bz := VoteSignBytes(chain, vote)

	var got kproto.CanonicalVote
	err := got.Unmarshal(verifStripDelimiter(v, bz))
	v.Assert(err == nil, "C11.signbytes.not-parseable")
	if err != nil {
		return
	}
	v.Assert(got.Type == vote.Type, "C11.signbytes.type-not-bound")
	v.Assert(got.Height == vote.Height, "C11.signbytes.height-not-bound")
	v.Assert(got.Round == vote.Round, "C11.signbytes.round-not-bound")
	verifCheckBlockID(v, vote.BlockID, got.BlockID)
	v.Assert(got.Timestamp.Equal(vote.Timestamp), "C11.signbytes.timestamp-not-bound")
	v.Assert(got.ChainID == chain, "C11.signbytes.chain-id-not-bound")
}

// VerifC11_G1prop: the same for proposals (incl. POL round); the type tag is ProposalType,
// which no vote carries, so vote and proposal sign bytes never coincide.
func VerifC11_G1prop(v *VerifV) {
	w := &verifWide{v: v, pick: v.Choice("wide-field", 7)}
	chain := verifSymChain(v)
	p := &kproto.Proposal{Type: kproto.ProposalType}
	p.Height = w.u64("height")
	p.Round = w.u32("round")
	p.PolRound = w.u32("pol-round")
	p.BlockID = verifSymBlockID(v, w)
	p.Timestamp = verifSymTime(v, w)

	bz := ProposalSignBytes(chain, p)

	var got kproto.CanonicalProposal
	err := got.Unmarshal(verifStripDelimiter(v, bz))
	v.Assert(err == nil, "C11.signbytes.not-parseable")
	if err != nil {
		return
	}
	v.Assert(got.Type == kproto.ProposalType && got.Type != kproto.PrevoteType && got.Type != kproto.PrecommitType,
		"C11.signbytes.proposal-type-not-bound")
	v.Assert(got.Height == p.Height, "C11.signbytes.height-not-bound")
	v.Assert(got.Round == p.Round, "C11.signbytes.round-not-bound")
	v.Assert(got.POLRound == p.PolRound, "C11.signbytes.pol-round-not-bound")
	verifCheckBlockID(v, p.BlockID, got.BlockID)
	v.Assert(got.Timestamp.Equal(p.Timestamp), "C11.signbytes.timestamp-not-bound")
	v.Assert(got.ChainID == chain, "C11.signbytes.chain-id-not-bound")
	v.Cover("proposal")
}
