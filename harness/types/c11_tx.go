package types

import (
	"crypto/ecdsa"
	"math/big"

	cmn "github.com/kardiachain/go-kardia/lib/common"
)

// ---- stubs for the transaction-signing harnesses

var verifLastHashed []interface{} // the list most recently handed to rlpHash
var verifHashCalls int

// Stub for types.rlpHash: an injective function of the list of boxed fields it receives
// (integers < 2^63 by harness construction, so 8 bytes each).
func verifStubRlpHash(x interface{}) cmn.Hash {
	var ser []byte
	if list, ok := x.([]interface{}); ok {
		verifLastHashed = list
		verifHashCalls++
		for _, e := range list {
			switch y := e.(type) {
			case uint64:
				ser = verifU64(append(ser, 1), y)
			case uint:
				ser = verifU64(append(ser, 2), uint64(y))
			case *big.Int:
				if y == nil {
					ser = append(ser, 3, 0)
				} else {
					ser = verifU64(append(ser, 3, 1), y.Uint64())
				}
			case *cmn.Address:
				if y == nil {
					ser = append(ser, 4, 0)
				} else {
					ser = append(append(ser, 4, 1), y[:]...)
				}
			case []byte:
				ser = verifU64(append(ser, 5), uint64(len(y)))
				ser = append(ser, y...)
			default:
				ser = append(ser, 0xff)
			}
		}
	} else {
		ser = []byte{0xee}
	}
	var h cmn.Hash
	copy(h[:], verifV.UF("rlphash", true, 32, ser))
	return h
}

var verifRecoverHash, verifRecoverSig []byte

// Stub for crypto.Ecrecover: an uninterpreted function of (hash, sig); records its arguments.
func verifStubEcrecover(hash, sig []byte) ([]byte, error) {
	verifRecoverHash = append([]byte(nil), hash...)
	verifRecoverSig = append([]byte(nil), sig...)
	pub := append([]byte{4}, verifV.UF("ecrecover", false, 64, hash, sig)...)
	return pub, nil
}

var verifN, _ = new(big.Int).SetString("fffffffffffffffffffffffffffffffebaaedce6af48a03bbfd25e8cd0364141", 16)
var verifHalfN = new(big.Int).Div(verifN, big.NewInt(2))

func verifSymTx(v *VerifV) *Transaction {
	nonce, gas := v.U64("nonce"), v.U64("gas")
	price := big.NewInt(v.I64("price"))
	value := big.NewInt(v.I64("value"))
	v.Assume(price.Sign() >= 0 && value.Sign() >= 0)
	payload := v.Bytes("payload", v.Len("payload-len", 0, 2))
	if v.Choice("creation", 2) == 1 {
		v.Cover("creation")
		return NewContractCreation(nonce, value, gas, price, payload)
	}
	var to cmn.Address
	copy(to[:], v.Bytes("to", 20))
	v.Cover("call")
	return NewTransaction(nonce, to, value, gas, price, payload)
}

// VerifC11_G2hash: the hash that is signed covers nonce, price, gas, recipient (nil differs
// from any address), value, payload and the chain id.
func VerifC11_G2hash(v *VerifV) {
	verifV = v
	tx := verifSymTx(v)
	c := v.I64("chainid")
	v.Assume(c >= 1 && c < 1<<31)
	signer := NewChainIDSigner(big.NewInt(c))
	verifLastHashed = nil
	_ = signer.Hash(tx)
	l := verifLastHashed
	v.Assert(len(l) == 9, "C11.tx.sighash-field-count")
	if len(l) != 9 {
		return
	}
	n, ok := l[0].(uint64)
	v.Assert(ok && n == tx.data.AccountNonce, "C11.tx.sighash-nonce")
	p, ok := l[1].(*big.Int)
	v.Assert(ok && p.Cmp(tx.data.Price) == 0, "C11.tx.sighash-price")
	g, ok := l[2].(uint64)
	v.Assert(ok && g == tx.data.GasLimit, "C11.tx.sighash-gas")
	to, ok := l[3].(*cmn.Address)
	v.Assert(ok && (to == nil) == (tx.data.Recipient == nil), "C11.tx.sighash-recipient")
	if ok && to != nil && tx.data.Recipient != nil {
		v.Assert(*to == *tx.data.Recipient, "C11.tx.sighash-recipient")
	}
	val, ok := l[4].(*big.Int)
	v.Assert(ok && val.Cmp(tx.data.Amount) == 0, "C11.tx.sighash-value")
	pl, ok := l[5].([]byte)
	v.Assert(ok && len(pl) == len(tx.data.Payload), "C11.tx.sighash-payload")
	if ok && len(pl) == len(tx.data.Payload) {
		for i := range pl {
			v.Assert(pl[i] == tx.data.Payload[i], "C11.tx.sighash-payload")
		}
	}
	cid, ok := l[6].(*big.Int)
	v.Assert(ok && cid.Cmp(big.NewInt(c)) == 0, "C11.tx.sighash-chainid")
}

// VerifC11_G2sender: Sender accepts only signatures whose V encodes the signer's chain id,
// whose r,s are in range with low s, and returns the address recovered from exactly
// (sig-hash, r||s||recid).
func VerifC11_G2sender(v *VerifV) {
	verifV = v
	tx := verifSymTx(v)
	c := v.I64("chainid")
	v.Assume(c >= 1 && c < 1<<15)
	var signer Signer = NewChainIDSigner(big.NewInt(c))
	sk := v.Choice("signer", 3)
	switch sk {
	case 1:
		signer = HomesteadSigner{}
		v.Cover("homestead-signer")
	case 2:
		signer = FrontierSigner{}
		v.Cover("frontier-signer")
	}
	// arbitrary signature values; r and s either full length or one byte
	R, S := v.Big("r", 256), v.Big("s", 256)
	full := new(big.Int).Lsh(big.NewInt(1), 248)
	if v.Choice("r-short", 2) == 1 {
		v.Assume(R.Cmp(big.NewInt(256)) < 0)
	} else {
		v.Assume(R.Cmp(full) >= 0)
	}
	if v.Choice("s-short", 2) == 1 {
		v.Assume(S.Cmp(big.NewInt(256)) < 0)
	} else {
		v.Assume(S.Cmp(full) >= 0)
	}
	V := v.Big("v", 72) // any non-negative V, also beyond 64 bits
	tx.data.V, tx.data.R, tx.data.S = V, R, S

	verifRecoverSig = nil
	addr, err := Sender(signer, tx)
	if err != nil {
		v.Cover("rejected")
		return
	}
	v.Cover("accepted")
	v.Assert(V.IsInt64(), "C11.tx.oversized-v-accepted")
	vv := V.Int64()
	protected := vv != 27 && vv != 28
	recid := int64(0)
	if sk != 0 {
		// signers without replay protection accept V in {27, 28} only
		v.Assert(!protected, "C11.tx.malformed-v-accepted")
		if protected {
			return
		}
	}
	if protected {
		v.Cover("protected")
		// V = 35 + 2*chain + recid
		v.Assert(vv == 35+2*c || vv == 36+2*c, "C11.tx.accepted-for-another-chain")
		recid = vv - 35 - 2*c
	} else {
		v.Cover("unprotected")
		recid = vv - 27
	}
	if sk == 0 && protected {
		// the same transaction object presented to a signer of another chain: the sender cached by the
		// first call must not be returned
		_, err2 := Sender(NewChainIDSigner(big.NewInt(c+1)), tx)
		v.Assert(err2 != nil, "C11.tx.accepted-on-another-chain-after-caching")
		v.Cover("other-chain-after-caching")
	}
	v.Assert(R.Sign() > 0 && R.Cmp(verifN) < 0, "C11.tx.r-out-of-range")
	if sk == 2 {
		v.Assert(S.Sign() > 0 && S.Cmp(verifN) < 0, "C11.tx.s-out-of-range") // Frontier rules: no low-s requirement
	} else {
		v.Assert(S.Sign() > 0 && S.Cmp(verifHalfN) <= 0, "C11.tx.high-s-accepted")
	}
	v.Assert(verifRecoverSig != nil && len(verifRecoverSig) == 65, "C11.tx.no-recovery")
	if len(verifRecoverSig) == 65 {
		v.Assert(int64(verifRecoverSig[64]) == recid, "C11.tx.recovery-id")
		v.Assert(new(big.Int).SetBytes(verifRecoverSig[:32]).Cmp(R) == 0, "C11.tx.recovered-with-other-r")
		v.Assert(new(big.Int).SetBytes(verifRecoverSig[32:64]).Cmp(S) == 0, "C11.tx.recovered-with-other-s")
		// the digest recovered against is the sig-hash of this very transaction under this signer
		var want cmn.Hash
		switch {
		case protected:
			want = signer.Hash(tx)
		case sk == 2:
			want = FrontierSigner{}.Hash(tx)
		default:
			want = HomesteadSigner{}.Hash(tx)
		}
		verifSameBytes(v, verifRecoverHash, want[:], "C11.tx.recovered-against-other-digest")
		// and the address is the hash of the recovered key
		pub, _ := verifStubEcrecover(verifRecoverHash, verifRecoverSig)
		verifSameBytes(v, addr[:], verifStubKeccak256(pub[1:])[12:], "C11.tx.address-not-from-recovered-key")
	}
}

// ---- G2sign: signing then recovering returns the signer ------------------------------------------

var verifSignedDigest []byte

// stub for crypto.Sign: records the digest that is signed and returns a well-formed signature
// (r = 1, low s = 1, recovery id 0) - the ECDSA arithmetic is not the subject
func verifStubSign(digest []byte, _ *ecdsa.PrivateKey) ([]byte, error) {
	verifSignedDigest = append([]byte(nil), digest...)
	sig := make([]byte, 65)
	sig[31], sig[63] = 1, 1
	return sig, nil
}

// VerifC11_G2sign: SignTx under each signer (chain id symbolic): the signed transaction is
// accepted by Sender under the same signer, and the digest the key signed is exactly the digest
// Sender recovers over - otherwise the recovered address is not the signer's.
func VerifC11_G2sign(v *VerifV) {
	verifV = v
	tx := verifSymTx(v)
	c := v.I64("chainid")
	v.Assume(c >= 1 && c < 1<<15)
	var signer Signer = NewChainIDSigner(big.NewInt(c))
	switch v.Choice("signer", 3) {
	case 1:
		signer = HomesteadSigner{}
	case 2:
		signer = FrontierSigner{}
	default:
		v.Cover("chain-id-signer")
	}
	verifSignedDigest, verifRecoverHash = nil, nil
	signed, err := SignTx(signer, tx, nil)
	v.Assert(err == nil && signed != nil, "C11.tx.sign-error")
	if err != nil || signed == nil {
		return
	}
	_, err = Sender(signer, signed)
	v.Assert(err == nil, "C11.tx.freshly-signed-transaction-rejected")
	if err != nil {
		return
	}
	v.Assert(len(verifSignedDigest) == 32 && len(verifRecoverHash) == 32, "C11.tx.no-recovery")
	verifSameBytes(v, verifSignedDigest, verifRecoverHash, "C11.tx.signed-digest-is-not-the-digest-recovered-over")
	v.Cover("signed-and-recovered")
}
