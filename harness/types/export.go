package types

// Exported access to the harness helpers of package types, for harnesses that live in
// other packages (evidence, consensus, blockchain, cstate).

import (
	"time"

	cmn "github.com/kardiachain/go-kardia/lib/common"
	kproto "github.com/kardiachain/go-kardia/proto/kardiachain/types"
)

// VerifBind gives the stubs of this package a nondet handle (engine mode: prelude methods
// are intercepted by name, so any handle will do).
func VerifBind() {
	verifV = &VerifV{}
	verifSigs = nil
	verifSigNext = 0
}

const VerifChain = verifChain

func VerifTS() time.Time                 { return verifTS }
func VerifAddr(i int) cmn.Address        { return verifAddr(i) }
func VerifBlockID(k int) BlockID         { return verifBlockID(k) }
func VerifNewSig(addr cmn.Address, tuple []byte) ([]byte, bool) {
	return verifNewSig(verifV, addr, tuple)
}
func VerifVoteTuple(t kproto.SignedMsgType, h uint64, r uint32, id BlockID, ts time.Time) []byte {
	return verifVoteTuple(t, h, r, id, ts)
}
func VerifMkVals(n int) (*ValidatorSet, []int64, int64) { return verifMkVals(verifV, n) }

// VerifSignedVote: a vote by validator i (address VerifAddr(i)) with a ghost signature.
func VerifSignedVote(i int, idx uint32, t kproto.SignedMsgType, h uint64, r uint32, id BlockID) (*Vote, bool) {
	sig, genuine := verifNewSig(verifV, verifAddr(i), verifVoteTuple(t, h, r, id, verifTS))
	return &Vote{ValidatorAddress: verifAddr(i), ValidatorIndex: idx, Height: h, Round: r, Type: t, BlockID: id,
		Timestamp: verifTS, Signature: sig}, genuine
}
