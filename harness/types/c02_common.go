package types

// Shared helpers for the C02 harnesses (package types).

import (
	"time"

	cmn "github.com/kardiachain/go-kardia/lib/common"
	kproto "github.com/kardiachain/go-kardia/proto/kardiachain/types"
)

var verifV *VerifV // set by each harness; used by the stubs below

const verifChain = "kai"

var verifTS = time.Unix(1600000000, 0).UTC()

func verifAddr(i int) cmn.Address {
	var a cmn.Address
	a[0] = 0xA0
	a[19] = byte(i + 1)
	return a
}

// verifSameHash: harness option, see verifBlockID
var verifSameHash bool

func verifBlockID(k int) BlockID {
	if k == 0 {
		return BlockID{}
	}
	var b BlockID
	b.Hash[0] = byte(0xB0 + k)
	b.Hash[31] = byte(k)
	if verifSameHash && k == 2 {
		// block id 2 = the hash of block 1 with another part-set header (a different block id)
		b.Hash[0], b.Hash[31] = byte(0xB0+1), 1
	}
	b.PartsHeader.Total = uint32(k)
	b.PartsHeader.Hash[0] = byte(0xC0 + k)
	b.PartsHeader.Hash[31] = byte(k)
	return b
}

// verifMkVals builds a validator set of n validators with symbolic powers,
// 1 <= p_i, sum <= MaxTotalVotingPower (the invariant NewValidatorSet establishes; see C12).
func verifMkVals(v *VerifV, n int) (*ValidatorSet, []int64, int64) {
	vals := make([]*Validator, n)
	powers := make([]int64, n)
	total := int64(0)
	for i := 0; i < n; i++ {
		p := v.I64("power")
		v.Assume(p >= 1 && p <= MaxTotalVotingPower)
		total += p
		v.Assume(total <= MaxTotalVotingPower)
		powers[i] = p
		vals[i] = &Validator{Address: verifAddr(i), VotingPower: p}
	}
	return &ValidatorSet{Validators: vals}, powers, total
}

func verifU64(b []byte, x uint64) []byte {
	for s := 56; s >= 0; s -= 8 {
		b = append(b, byte(x>>uint(s)))
	}
	return b
}

// verifSignTuple is the oracle's definition of "the content that is signed":
// an injective fixed-width encoding of (chain, type, height, round, block id, timestamp).
func verifSignTuple(chainID string, t kproto.SignedMsgType, h uint64, r uint32, hash []byte, total uint32, phash []byte, ts time.Time) []byte {
	var b []byte
	b = verifU64(b, uint64(len(chainID)))
	b = append(b, chainID...)
	b = verifU64(b, uint64(t))
	b = verifU64(b, h)
	b = verifU64(b, uint64(r))
	b = verifU64(b, uint64(len(hash)))
	b = append(b, hash...)
	b = verifU64(b, uint64(total))
	b = verifU64(b, uint64(len(phash)))
	b = append(b, phash...)
	b = verifU64(b, uint64(ts.Unix()))
	b = verifU64(b, uint64(ts.Nanosecond()))
	return b
}

// Stub for types.VoteSignBytes in the quick tier (the real encoder is C11's subject
// and runs in the thorough tier).
func verifStubVoteSignBytes(chainID string, vote *kproto.Vote) []byte {
	return verifSignTuple(chainID, vote.Type, vote.Height, vote.Round, vote.BlockID.Hash,
		vote.BlockID.PartSetHeader.Total, vote.BlockID.PartSetHeader.Hash, vote.Timestamp)
}

// Stub for crypto.Keccak256: injective uninterpreted function.
func verifStubKeccak256(data ...[]byte) []byte {
	var all []byte
	for _, d := range data {
		all = append(all, d...)
	}
	return verifV.UF("keccak256", true, 32, all)
}

// Signatures are a ghost relation: a signature is a (concrete, unique) tag; the table
// records who produced it over which digest and whether it is genuine (symbolic: the
// adversary may offer forgeries, which never verify - EUF-CMA is the assumption).
type verifSigEntry struct {
	valid bool
	addr  cmn.Address
	hash  []byte
}

var verifSigs map[byte]*verifSigEntry
var verifSigNext byte

// verifNewSig: a signature attempt by addr over the tuple; valid is chosen by the solver.
func verifNewSig(v *VerifV, addr cmn.Address, tuple []byte) ([]byte, bool) {
	if verifSigs == nil {
		verifSigs = make(map[byte]*verifSigEntry)
	}
	verifSigNext++
	valid := v.Bool("sig-genuine")
	verifSigs[verifSigNext] = &verifSigEntry{valid: valid, addr: addr, hash: verifStubKeccak256(tuple)}
	return []byte{verifSigNext, 0x5a}, valid
}

// Stub for types.VerifySignature.
func verifStubVerifySignature(addr cmn.Address, hash, signature []byte) bool {
	if len(signature) == 0 {
		return false
	}
	e := verifSigs[signature[0]]
	if e == nil || len(hash) != len(e.hash) {
		return false
	}
	for i := range hash {
		if hash[i] != e.hash[i] {
			return false
		}
	}
	if addr != e.addr {
		return false
	}
	return e.valid
}

// verifVoteTuple: what a vote with these fields commits to.
func verifVoteTuple(t kproto.SignedMsgType, h uint64, r uint32, id BlockID, ts time.Time) []byte {
	pid := id.ToProto()
	return verifSignTuple(verifChain, t, h, r, pid.Hash, id.PartsHeader.Total, pid.PartSetHeader.Hash, ts)
}

// Stub for time.Now where the code under test only stamps objects with it.
func verifStubNow() time.Time { return verifTS }
