package types

import (
	"github.com/kardiachain/go-kardia/lib/p2p"
	kproto "github.com/kardiachain/go-kardia/proto/kardiachain/types"
)

// VerifC02_H3maj: the quorum-crossing arithmetic of addVerifiedVote, full int64 range.
// Three validators; 0 already voted for block A (state built by hand), validator 1's
// verified vote for A is added through the real addVerifiedVote.
func VerifC02_H3maj(v *VerifV) {
	verifV = v
	vals, p, total := verifMkVals(v, 3)
	vs := NewVoteSet(verifChain, 5, 2, kproto.PrecommitType, vals)
	A := verifBlockID(1)
	mk := func(i int) *Vote {
		return &Vote{ValidatorAddress: verifAddr(i), ValidatorIndex: uint32(i), Height: 5, Round: 2,
			Type: kproto.PrecommitType, BlockID: A, Timestamp: verifTS, Signature: []byte{byte(i + 1)}}
	}
	// validator 0's vote goes through the real code as well
	added0, c0 := vs.addVerifiedVote(mk(0), A.Key(), p[0])
	v.Assert(added0 && c0 == nil, "C02.maj.first-added")
	_, ok0 := vs.TwoThirdsMajority()
	v.Assert(ok0 == (3*p[0] > 2*total), "C02.maj.threshold.1")
	added1, c1 := vs.addVerifiedVote(mk(1), A.Key(), p[1])
	v.Assert(added1 && c1 == nil, "C02.maj.second-added")
	id, ok1 := vs.TwoThirdsMajority()
	want := 3*(p[0]+p[1]) > 2*total
	if ok1 {
		v.Cover("maj-reached")
		v.Assert(id.Equal(A), "C02.maj.blockid")
	} else {
		v.Cover("maj-not-reached")
	}
	v.Assert(ok1 == want, "C02.maj.threshold.2")
	v.Assert(vs.sum == p[0]+p[1], "C02.maj.sum")
}

// VerifC02_H1seq: a bounded sequence of votes / peer claims against an independent tally.
func VerifC02_H1seq(v *VerifV) {
	verifV = v
	N := v.Param("N")
	K := v.Param("K")
	NB := v.Param("NB") // number of block ids incl. nil
	verifSameHash = v.Param("SAMEHASH") == 1
	if verifSameHash {
		v.Cover("same-hash-other-parts")
	}
	vals, p, total := verifMkVals(v, N)
	const H, R = 5, 2
	T := kproto.PrecommitType
	vs := NewVoteSet(verifChain, H, R, T, vals)

	signed := make([][]bool, N) // signed[i][b]: validator i validly signed block b (offered to the set)
	firstFor := make([]int, N)  // block of i's first valid vote, -1 if none
	for i := range signed {
		signed[i] = make([]bool, NB)
		firstFor[i] = -1
	}
	equivocation := false
	claims := 0
	resends := 0
	var prev *Vote
	prevValid, prevB := false, 0
	for k := 0; k < K; k++ {
		if claims < 1 && v.Choice("op", 2) == 1 {
			claims++
			b := v.Choice("claim-blk", NB)
			_ = vs.SetPeerMaj23(p2p.ID("peer1"), verifBlockID(b))
			v.Cover("peer-claim")
			continue
		}
		i := v.Choice("val", N)
		b := v.Choice("blk", NB)
		id := verifBlockID(b)
		var vote *Vote
		valid := false
		if k > 0 && prev != nil && resends < 1 && v.Choice("resend", 2) == 1 {
			resends++
			// the same vote object is offered again (duplicate delivery)
			vote, valid, i, b = prev, prevValid, int(prev.ValidatorIndex), prevB
			v.Cover("duplicate")
		} else {
			sig, ok := verifNewSig(v, verifAddr(i), verifVoteTuple(T, H, R, id, verifTS))
			vote = &Vote{ValidatorAddress: verifAddr(i), ValidatorIndex: uint32(i), Height: H, Round: R,
				Type: T, BlockID: id, Timestamp: verifTS, Signature: sig}
			valid = ok
		}
		prev, prevValid, prevB = vote, valid, b
		added, err := vs.AddVote(vote)
		if valid {
			if firstFor[i] < 0 {
				firstFor[i] = b
			} else if firstFor[i] != b {
				equivocation = true
			}
			signed[i][b] = true
		} else {
			v.Assert(!added, "C02.seq.invalid-sig-added")
			v.Assert(err != nil, "C02.seq.invalid-sig-no-error")
			v.Cover("forged-rejected")
		}
		if err != nil {
			if _, isConf := err.(*ErrVoteConflictingVotes); isConf {
				v.Cover("conflict")
				v.Assert(valid && firstFor[i] >= 0 && firstFor[i] != b, "C02.seq.conflict-without-equivocation")
			}
		}
	}
	// independent tallies
	tally := make([]int64, NB)
	any := int64(0)
	first := make([]int64, NB)
	for i := 0; i < N; i++ {
		s := false
		for b := 0; b < NB; b++ {
			if signed[i][b] {
				tally[b] += p[i]
				s = true
			}
		}
		if s {
			any += p[i]
		}
		if firstFor[i] >= 0 {
			first[firstFor[i]] += p[i]
		}
	}
	maj, ok := vs.TwoThirdsMajority()
	v.Assert(ok == vs.HasTwoThirdsMajority(), "C02.seq.maj-consistent")
	if ok {
		v.Cover("maj23")
		mb := -1
		for b := 0; b < NB; b++ {
			if maj.Equal(verifBlockID(b)) {
				mb = b
			}
		}
		v.Assert(mb >= 0, "C02.seq.maj-unknown-block")
		if mb >= 0 {
			if mb == 0 {
				v.Cover("maj23-nil")
			}
			v.Assert(3*tally[mb] > 2*total, "C02.seq.maj-sound")
		}
	}
	if vs.HasTwoThirdsAny() {
		v.Assert(3*any > 2*total, "C02.seq.any-sound")
	} else {
		v.Assert(3*any <= 2*total, "C02.seq.any-complete")
	}
	v.Assert(vs.sum <= total && vs.sum == any, "C02.seq.sum-once")
	if vs.HasAll() {
		v.Assert(any == total, "C02.seq.hasall")
	}
	// completeness: a block with > 2/3 of first votes is reported
	for b := 0; b < NB; b++ {
		if 3*first[b] > 2*total {
			v.Cover("first-vote-quorum")
			v.Assert(ok, "C02.seq.complete")
			if ok && !equivocation {
				v.Assert(maj.Equal(verifBlockID(b)), "C02.seq.complete-block")
			}
		}
	}
	// the commit built from a block majority is accepted by commit verification
	if ok && !maj.IsZero() {
		commit := vs.MakeCommit()
		err := vals.VerifyCommit(verifChain, maj, H, commit)
		v.Assert(err == nil, "C02.seq.makecommit-verifies")
		if err == nil {
			v.Cover("commit-accepted")
		}
		for i, cs := range commit.Signatures {
			if cs.ForBlock() {
				v.Assert(vs.votes[i] != nil && vs.votes[i].BlockID.Equal(maj), "C02.seq.commit-foreign-sig")
			}
		}
	}
}
