package types

import (
	"math"
	"math/big"
)

// Executable transcription of the proposer-selection specification
// (Tendermint spec, "Proposer selection procedure"): rescale to a window of
// 2*TVP using max-min, centre on floor(avg), then `times` rounds of
// "add powers, highest (ties: lowest address) proposes and pays TVP".
type verifSpecVal struct {
	addrRank int // position in address order (lower = smaller address)
	power    int64
	prio     int64
}

const verifPrioBound = math.MaxInt64 / 4 // >= 2*MaxTotalVotingPower: room for the whole window

func verifFloorDiv(a, n int64) int64 { // n > 0
	q := a / n
	if a%n != 0 && a < 0 {
		q--
	}
	return q
}

func verifSpecRescaleAndCentre(vs []verifSpecVal, v *VerifV) (rescaled bool) {
	tvp := int64(0)
	for _, x := range vs {
		tvp += x.power
	}
	diffMax := 2 * tvp
	max, min := vs[0].prio, vs[0].prio
	for _, x := range vs[1:] {
		if x.prio > max {
			max = x.prio
		}
		if x.prio < min {
			min = x.prio
		}
	}
	diff := max - min
	if diff > diffMax {
		ratio := (diff + diffMax - 1) / diffMax
		for i := range vs {
			vs[i].prio /= ratio
		}
		rescaled = true
	}
	// avg = floor(sum/n) in mathematical integers
	sum := big.NewInt(0)
	for _, x := range vs {
		sum.Add(sum, big.NewInt(x.prio))
	}
	avg := sum.Div(sum, big.NewInt(int64(len(vs)))).Int64() // Euclidean = floor for n > 0; |avg| <= max|prio|
	for i := range vs {
		vs[i].prio -= avg
	}
	return rescaled
}

func verifSpecRound(vs []verifSpecVal, v *VerifV) int {
	tvp := int64(0)
	for i := range vs {
		vs[i].prio += vs[i].power
		tvp += vs[i].power
	}
	best := 0
	for i := 1; i < len(vs); i++ {
		if vs[i].prio > vs[best].prio {
			best = i
		} else if vs[i].prio == vs[best].prio {
			v.Cover("tie-break")
			if vs[i].addrRank < vs[best].addrRank {
				best = i
			}
		}
	}
	vs[best].prio -= tvp
	return best
}

// VerifC12_P1: IncrementProposerPriority(times) vs the specification, from an
// arbitrary validator set (symbolic powers and priorities).
func VerifC12_P1(v *VerifV) {
	N := v.Param("N")
	T := v.Param("T")
	vals := make([]*Validator, N)
	spec := make([]verifSpecVal, N)
	total := int64(0)
	concretePowers := v.Param("CP") == 1
	for i := 0; i < N; i++ {
		var p int64
		if concretePowers {
			p = []int64{3, 1, 2, 5}[i]
		} else {
			p = v.I64("power")
			v.Assume(p >= 1 && p <= MaxTotalVotingPower)
		}
		total += p
		v.Assume(total <= MaxTotalVotingPower)
		pr := v.I64("prio")
		v.Assume(pr >= -verifPrioBound && pr <= verifPrioBound)
		vals[i] = &Validator{Address: verifAddr(i), VotingPower: p, ProposerPriority: pr}
		spec[i] = verifSpecVal{addrRank: i, power: p, prio: pr}
	}
	set := &ValidatorSet{Validators: vals}
	times := v.Len("times", 1, T)
	// region of the state space (the regions together cover max-min <= R*TVP; beyond is outside the bound)
	{
		max, min := spec[0].prio, spec[0].prio
		for _, x := range spec[1:] {
			if x.prio > max {
				max = x.prio
			}
			if x.prio < min {
				min = x.prio
			}
		}
		lo, hi := int64(v.Param("WLO")), int64(v.Param("WHI")) // window: lo*TVP < max-min <= hi*TVP
		v.Assume(max-min > lo*total || lo == 0)
		v.Assume(max-min <= hi*total)
	}

	set.IncrementProposerPriority(int64(times))

	if verifSpecRescaleAndCentre(spec, v) {
		v.Cover("rescaled")
	} else {
		v.Cover("not-rescaled")
	}
	prop := -1
	for t := 0; t < times; t++ {
		prop = verifSpecRound(spec, v)
	}
	for i := 0; i < N; i++ {
		v.Assert(set.Validators[i].ProposerPriority == spec[i].prio, "C12.increment.priority-differs-from-spec")
		v.Assert(set.Validators[i].VotingPower == spec[i].power, "C12.increment.power-changed")
	}
	v.Assert(set.Proposer == set.Validators[prop], "C12.increment.proposer-differs-from-spec")
	gp := set.GetProposer()
	v.Assert(gp.Address == verifAddr(prop), "C12.increment.getproposer")
}

// VerifC12_P1w: RescalePriorities alone, over the whole priority range.
func VerifC12_P1w(v *VerifV) {
	N := v.Param("N")
	vals := make([]*Validator, N)
	pr := make([]int64, N)
	total := int64(0)
	for i := 0; i < N; i++ {
		p := v.I64("power")
		v.Assume(p >= 1 && p <= MaxTotalVotingPower)
		total += p
		v.Assume(total <= MaxTotalVotingPower)
		pr[i] = v.I64("prio")
		v.Assume(pr[i] >= -verifPrioBound && pr[i] <= verifPrioBound)
		vals[i] = &Validator{Address: verifAddr(i), VotingPower: p, ProposerPriority: pr[i]}
	}
	set := &ValidatorSet{Validators: vals}
	diffMax := 2 * total
	set.RescalePriorities(diffMax)
	max, min := pr[0], pr[0]
	for _, x := range pr[1:] {
		if x > max {
			max = x
		}
		if x < min {
			min = x
		}
	}
	diff := max - min
	if diff > diffMax {
		v.Cover("rescale-needed")
		ratio := (diff + diffMax - 1) / diffMax
		for i := 0; i < N; i++ {
			v.Assert(set.Validators[i].ProposerPriority == pr[i]/ratio, "C12.rescale.not-rescaled-to-window")
		}
	} else {
		v.Cover("rescale-not-needed")
		for i := 0; i < N; i++ {
			v.Assert(set.Validators[i].ProposerPriority == pr[i], "C12.rescale.changed-inside-window")
		}
	}
}
