package blockchain

import (
	"time"

	"github.com/kardiachain/go-kardia/configs"
	"github.com/kardiachain/go-kardia/kai/state/cstate"
	"github.com/kardiachain/go-kardia/mainchain/tx_pool"
	kproto "github.com/kardiachain/go-kardia/proto/kardiachain/types"
	"github.com/kardiachain/go-kardia/types"
)

var verifEV *VerifV

// the evidence pool as its interface documents it: PendingEvidence(maxBytes) returns pending
// evidence, in order, as long as the running total of the encoded sizes stays within maxBytes
// (-1 = no limit)
type verifEvPool struct {
	items []types.Evidence
	sizes []int64
	asked int64
}

func (p *verifEvPool) PendingEvidence(maxBytes int64) ([]types.Evidence, int64) {
	p.asked = maxBytes
	var out []types.Evidence
	total := int64(0)
	for i, e := range p.items {
		if maxBytes != -1 && total+p.sizes[i] > maxBytes {
			break
		}
		total += p.sizes[i]
		out = append(out, e)
	}
	return out, total
}


func verifStubMerkleSum(bz []byte) []byte { return verifEV.UF("sha256", true, 32, bz) }

// VerifC19_E6: the proposer side of "evidence is proposed until committed": CreateProposalBlock
// with a pool holding one or two pieces of pending evidence of symbolic encoded size and symbolic
// consensus parameters (block and evidence byte limits): every pending piece that fits the
// block's evidence byte budget (Evidence.MaxBytes / 10) is in the proposed block, in order, and the
// block never carries more evidence than the validators accept (count limit of validateBlock,
// byte budget).
func VerifC19_E6(v *VerifV) {
	verifEV = v
	mk := func(h byte) types.Evidence {
		vote := func(b byte) *types.Vote {
			return &types.Vote{Type: kproto.PrecommitType, Height: 7, Round: 1, BlockID: types.BlockID{Hash: [32]byte{b}, PartsHeader: types.PartSetHeader{Total: 1, Hash: [32]byte{b, 1}}},
				Timestamp: time.Unix(1600000000, 0).UTC(), ValidatorAddress: [20]byte{h}, Signature: make([]byte, 65)}
		}
		return &types.DuplicateVoteEvidence{VoteA: vote(1), VoteB: vote(2), TotalVotingPower: 30, ValidatorPower: 10, Timestamp: time.Unix(1600000000, 0).UTC()}
	}
	pool := &verifEvPool{}
	n := 1 + v.Choice("pending", 2)
	for i := 0; i < n; i++ {
		s := v.I64("encoded-size")
		v.Assume(s >= 300 && s <= 600) // a duplicate-vote evidence is 350..450 bytes on the wire
		pool.items = append(pool.items, mk(byte(i+1)))
		pool.sizes = append(pool.sizes, s)
	}
	evMax, blockMax := v.I64("evidence-max-bytes"), v.I64("block-max-bytes")
	v.Assume(evMax >= 10*600 && evMax <= 1<<24 && blockMax >= evMax && blockMax <= 1<<28)
	if evMax == 1048576 {
		v.Cover("default-evidence-params")
	}
	st := cstate.LatestBlockState{ChainID: "kai", LastBlockHeight: 7, LastBlockTime: time.Unix(1600000000, 0).UTC(),
		Validators: &types.ValidatorSet{}, NextValidators: &types.ValidatorSet{}, LastValidators: &types.ValidatorSet{}}
	st.ConsensusParams.Evidence.MaxBytes = evMax
	st.ConsensusParams.Block.MaxBytes = blockMax
	bo := &BlockOperations{logger: verifNopLogger{}, blockchain: &BlockChain{chainConfig: verifChainCfg()}, txPool: &tx_pool.TxPool{}, evPool: pool, height: 7}
	block, _ := bo.CreateProposalBlock(1, st, [20]byte{9}, types.NewCommit(0, 0, types.BlockID{}, nil))
	v.Assert(block != nil, "C19.propose.no-block")
	if block == nil {
		return
	}
	got := block.Evidence().Evidence
	budget := evMax / 10
	countLimit := blockMax / 10 / types.MaxEvidenceBytes
	total := int64(0)
	for i := 0; i < n; i++ {
		total += pool.sizes[i]
		if total <= budget && int64(i+1) <= countLimit {
			v.Assert(len(got) > i && got[i] == pool.items[i], "C19.propose.pending-evidence-that-fits-not-proposed")
			v.Cover("fits")
		}
	}
	v.Assert(int64(len(got)) <= countLimit, "C19.propose.more-evidence-than-validators-accept")
	sum := int64(0)
	for i := range got {
		sum += pool.sizes[i]
	}
	v.Assert(sum <= budget, "C19.propose.evidence-above-byte-budget")
}

func verifChainCfg() *configs.ChainConfig { return &configs.ChainConfig{} }

// stub for types.hash (Keccak of encoded bytes)
func verifStubTypesHash(b []byte) (h [32]byte) {
	copy(h[:], verifEV.UF("keccak-bytes", true, 32, b))
	return h
}
