package blockchain

import (
	"math/big"

	"github.com/kardiachain/go-kardia/configs"
	"github.com/kardiachain/go-kardia/kvm"
	cmn "github.com/kardiachain/go-kardia/lib/common"
	vm "github.com/kardiachain/go-kardia/mainchain/kvm"
	"github.com/kardiachain/go-kardia/types"
)

var verifFrom, verifTo, verifCoinbase = cmn.Address{0xA1}, cmn.Address{0xB2}, cmn.Address{0xC3}

// VerifC09_V1: one transaction through the real StateTransition (preCheck, buyGas, intrinsic
// gas, KVM.Call/Create with the interpreter below arbitrary but value conserving, refundGas, fee
// to the proposer), from arbitrary balances, nonce, gas limit, price, value, pool.
func VerifC09_V1(v *VerifV) {
	st := kvm.VerifNewState()
	n0 := v.U64("sender-nonce")
	v.Assume(n0 < 1<<62)
	st.Put(verifFrom, v.Big("sender-balance", 96), n0, nil)
	st.Put(verifCoinbase, v.Big("coinbase-balance", 80), 0, nil)
	creation := v.Choice("creation", 2) == 1
	var to *cmn.Address
	if !creation {
		to = &verifTo
		if v.Choice("recipient-is-contract", 2) == 1 {
			st.Put(verifTo, v.Big("recipient-balance", 80), 1, []byte{0x60, 0x00})
			v.Cover("contract-call")
		} else {
			st.Put(verifTo, v.Big("recipient-balance", 80), 0, nil)
		}
	} else {
		v.Cover("creation")
	}
	st.Refund = v.U64("refund-counter")
	v.Assume(st.Refund < 1<<40)
	price := v.Big("gas-price", 40)
	value := v.Big("value", 80)
	gasLimit := v.U64("gas-limit")
	v.Assume(gasLimit < 1<<40)
	nonce := v.U64("tx-nonce")
	data := v.Bytes("data", v.Len("data-len", 0, 2))
	msg := types.NewMessage(verifFrom, to, nonce, value, gasLimit, price, data, true)
	kvm.VerifRunV, kvm.VerifRunCalls = v, 0
	machine := kvm.NewKVM(kvm.BlockContext{CanTransfer: vm.CanTransfer, Transfer: vm.Transfer, Coinbase: verifCoinbase, BlockHeight: big.NewInt(1)},
		kvm.TxContext{Origin: verifFrom, GasPrice: price}, st, &configs.ChainConfig{}, kvm.Config{})
	pool0 := v.U64("pool-gas")
	v.Assume(pool0 < 1<<41)
	gp := new(types.GasPool).AddGas(pool0)
	total0 := st.Total()
	sender0, coinbase0 := st.GetBalance(verifFrom), st.GetBalance(verifCoinbase)

	res, err := ApplyMessage(machine, msg, gp)

	if err != nil {
		v.Cover("rejected")
		// rejected before execution: nonce untouched; the caller (commitBlock) reverts the rest
		v.Assert(st.GetNonce(verifFrom) == n0, "C09.tx.rejected-tx-bumped-nonce")
		// and it uses none of the block's gas (the pool decreases by exactly the gas used)
		v.Assert(gp.Gas() == pool0, "C09.tx.rejected-tx-consumed-block-gas")
		return
	}
	v.Cover("executed")
	used := res.UsedGas
	v.Assert(nonce == n0, "C09.tx.executed-with-wrong-nonce")
	v.Assert(used <= gasLimit, "C09.tx.gas-used-above-limit")
	v.Assert(gp.Gas() == pool0-used, "C09.tx.pool-not-reduced-by-gas-used")
	v.Assert(st.GetNonce(verifFrom) == n0+1, "C09.tx.nonce-not-incremented-once")
	v.Assert(st.Total().Cmp(total0) == 0, "C09.tx.value-not-conserved")
	fee := new(big.Int).Mul(new(big.Int).SetUint64(used), price)
	v.Assert(st.GetBalance(verifCoinbase).Cmp(new(big.Int).Add(coinbase0, fee)) == 0, "C09.tx.proposer-fee")
	paid := new(big.Int).Sub(sender0, st.GetBalance(verifFrom))
	if res.Err == nil && kvm.VerifRunCalls == 0 {
		// plain transfer (or creation of empty code): sender pays value + fee exactly
		v.Assert(paid.Cmp(new(big.Int).Add(value, fee)) == 0, "C09.tx.sender-does-not-pay-value-plus-fee")
		v.Cover("plain-transfer")
	}
	if res.Err != nil {
		// failed execution: only the fee is paid
		v.Assert(paid.Cmp(fee) == 0, "C09.tx.failed-tx-moved-value")
		v.Cover("failed-execution")
	}
	v.Assert(st.GetBalance(verifFrom).Sign() >= 0, "C09.tx.negative-balance")
}
