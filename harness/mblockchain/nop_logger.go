package blockchain

import "github.com/kardiachain/go-kardia/lib/log"

type verifNopLogger struct{}

func (verifNopLogger) New(ctx ...interface{}) log.Logger    { return verifNopLogger{} }
func (verifNopLogger) AddTag(tag string)                    {}
func (verifNopLogger) GetHandler() log.Handler              { return nil }
func (verifNopLogger) SetHandler(h log.Handler)             {}
func (verifNopLogger) Trace(msg string, ctx ...interface{}) {}
func (verifNopLogger) Debug(msg string, ctx ...interface{}) {}
func (verifNopLogger) Info(msg string, ctx ...interface{})  {}
func (verifNopLogger) Warn(msg string, ctx ...interface{})  {}
func (verifNopLogger) Error(msg string, ctx ...interface{}) {}
func (verifNopLogger) Crit(msg string, ctx ...interface{})  {}

