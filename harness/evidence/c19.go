package evidence

import (
	"time"

	"github.com/kardiachain/go-kardia/kai/kaidb/memorydb"
	"github.com/kardiachain/go-kardia/kai/state/cstate"
	"github.com/kardiachain/go-kardia/lib/clist"
	"github.com/kardiachain/go-kardia/mainchain/genesis"
	kproto "github.com/kardiachain/go-kardia/proto/kardiachain/types"
	"github.com/kardiachain/go-kardia/types"
)

func verifBlockID(k int) types.BlockID {
	// 0 nil, 1 A, 2 B, 3 A' = A's hash with another part-set hash, 4 A'' = A with another parts total only
	switch k {
	case 3:
		b := types.VerifBlockID(1)
		b.PartsHeader.Hash[5] ^= 0x40
		return b
	case 4:
		b := types.VerifBlockID(1)
		b.PartsHeader.Total += 7
		return b
	case 5:
		b := types.VerifBlockID(1)
		b.PartsHeader.Hash[5] ^= 0x40
		b.PartsHeader.Hash[0] = 0x01 // smaller part-set hash than A's
		return b
	}
	return types.VerifBlockID(k)
}

// VerifC19_E1: VerifyDuplicateVote accepts exactly real double-signing.
func VerifC19_E1(v *VerifV) {
	types.VerifBind()
	const N = 2
	vals, p, total := types.VerifMkVals(N)
	const H, R = 7, 1
	NB := v.Param("NB")
	// one deviation from a real double-sign per run (0 = none)
	scen := v.Choice("scenario", 12)
	mk := func(tag string, second bool) (*types.Vote, bool, int, int, bool) {
		signer := 0
		if scen == 1 {
			signer = N // not a member (both votes)
		}
		if scen == 2 && second {
			signer = 1 // the two votes are by different validators
		}
		claimed := signer
		forged := false
		if (scen == 3 && !second) || (scen == 4 && second) {
			claimed = (signer + 1) % N // signed by `signer`, attributed to another validator
			forged = true
		}
		h, r := uint64(H), uint32(R)
		t := kproto.PrecommitType
		if second {
			switch scen {
			case 5:
				h++
			case 6:
				r++
			case 7:
				t = kproto.PrevoteType
			}
		}
		b := v.Choice(tag+"-blk", NB)
		vote, genuine := types.VerifSignedVote(signer, uint32(signer%N), t, h, r, verifBlockID(b))
		vote.ValidatorAddress = types.VerifAddr(claimed)
		return vote, genuine && !forged, claimed, b, true
	}
	va, okA, whoA, bA, stdA := mk("a", false)
	vb, okB, whoB, bB, stdB := mk("b", true)
	ev := &types.DuplicateVoteEvidence{VoteA: va, VoteB: vb, Timestamp: types.VerifTS()}
	pw, tw := scen == 8, scen == 9
	if whoA < N {
		ev.ValidatorPower = p[whoA]
	}
	if pw {
		ev.ValidatorPower++
	}
	ev.TotalVotingPower = total
	if tw {
		ev.TotalVotingPower++
	}
	// the votes' validator index is part of the evidence hash but not of the signed bytes: evidence that
	// states another index than the validator's position is the same double-sign under another identity
	wrongIndex := false
	if scen == 0 && v.Bool("other-validator-index") {
		idx := v.U32("validator-index")
		v.Assume(int(idx) != whoA%N)
		va.ValidatorIndex, vb.ValidatorIndex = idx, idx
		wrongIndex = true
		v.Cover("other-validator-index")
	}
	err := VerifyDuplicateVote(ev, types.VerifChain, vals)
	sameStep := va.Height == vb.Height && va.Round == vb.Round && va.Type == vb.Type
	_ = stdA
	_ = stdB
	real := whoA < N && whoA == whoB && sameStep && !verifSameID(verifBlockID(bA), verifBlockID(bB)) && !pw && !tw && okA && okB
	if err == nil {
		v.Cover("accepted")
		v.Assert(whoA < N, "C19.verify.non-validator-held-accountable")
		v.Assert(whoA == whoB, "C19.verify.votes-of-different-validators")
		v.Assert(sameStep, "C19.verify.different-height-round-or-type")
		v.Assert(!verifSameID(verifBlockID(bA), verifBlockID(bB)), "C19.verify.same-block-id")
		v.Assert(!pw && !tw, "C19.verify.power-mismatch-accepted")
		v.Assert(okA && okB, "C19.verify.forged-signature-accepted")
		v.Assert(!wrongIndex, "C19.verify.accepts-the-same-double-sign-under-another-validator-index")
	} else {
		v.Cover("rejected")
		v.Assert(!real || wrongIndex, "C19.verify.real-double-sign-rejected")
	}
}

// VerifC19_E3: evidence a correct node builds from a real conflict (any two differently
// targeted, validly signed votes of one validator, in either arrival order) is well formed
// and accepted by the verifier of every other correct node.
func VerifC19_E3(v *VerifV) {
	types.VerifBind()
	const N = 2
	vals, _, _ := types.VerifMkVals(N)
	const H, R = 7, 1
	NB := v.Param("NB")
	who := v.Choice("validator", N)
	b1 := v.Choice("first-blk", NB)
	b2 := v.Choice("second-blk", NB)
	id1, id2 := verifBlockID(b1), verifBlockID(b2)
	v.Assume(!verifSameID(id1, id2))
	t := kproto.PrevoteType
	if v.Choice("type", 2) == 1 {
		t = kproto.PrecommitType
	}
	v1, g1 := types.VerifSignedVote(who, uint32(who), t, H, R, id1)
	v2, g2 := types.VerifSignedVote(who, uint32(who), t, H, R, id2)
	v.Assume(g1 && g2)
	if id1.Hash == id2.Hash {
		v.Cover("same-hash-different-parts")
	}
	ev := types.NewDuplicateVoteEvidence(v1, v2, types.VerifTS(), vals)
	v.Assert(ev != nil, "C19.produce.no-evidence-for-real-conflict")
	if ev == nil {
		return
	}
	v.Cover("produced")
	if id1.Hash == id2.Hash && id1.PartsHeader.Hash == id2.PartsHeader.Hash {
		// the two targets differ only in PartSetHeader.Total (a separate, listed finding)
		v.Cover("total-only-conflict")
		v.Assert(ev.ValidateBasic() == nil, "C19.produce.total-only-conflict-fails-basic-validation")
	} else {
		v.Assert(ev.ValidateBasic() == nil, "C19.produce.evidence-fails-basic-validation")
	}
	v.Assert(VerifyDuplicateVote(ev, types.VerifChain, vals) == nil, "C19.produce.evidence-rejected-by-verifier")
}

func verifSameID(a, b types.BlockID) bool { return a.Equal(b) }

// ---- E4: the pool's verify (time binding, expiry, validator set of the evidence height) ---------

type verifBlockStore struct {
	metaTime time.Time
	have     bool
}

func (b verifBlockStore) LoadBlockMeta(h uint64) *types.BlockMeta {
	if !b.have {
		return nil
	}
	return &types.BlockMeta{Header: &types.Header{Height: h, Time: b.metaTime}}
}
func (b verifBlockStore) LoadBlockCommit(uint64) *types.Commit { return nil }

type verifStateStore struct{ vals *types.ValidatorSet }

func (s verifStateStore) LoadStateFromDBOrGenesisDoc(*genesis.Genesis) (cstate.LatestBlockState, error) {
	return cstate.LatestBlockState{}, nil
}
func (s verifStateStore) Load() cstate.LatestBlockState   { return cstate.LatestBlockState{} }
func (s verifStateStore) Save(cstate.LatestBlockState)    {}
func (s verifStateStore) LoadValidators(uint64) (*types.ValidatorSet, error) { return s.vals, nil }
func (s verifStateStore) LoadConsensusParams(uint64) (kproto.ConsensusParams, error) {
	return kproto.ConsensusParams{}, nil
}
func (s verifStateStore) PruneState(from, to uint64) (uint64, uint64, uint64) { return 0, 0, 0 }

// VerifC19_E4: Pool.verify on evidence of a real double-sign with an arbitrary timestamp
// (seconds and nanoseconds symbolic), an arbitrary age in blocks and in time, and the block of
// the evidence height present or not: accepted iff the block is known, the evidence timestamp
// IS that block's time (to the nanosecond: the timestamp is part of the evidence hash, a
// re-stamped copy would be new evidence), and the evidence has not expired (older than both
// the block and the duration limit).
func VerifC19_E4(v *VerifV) {
	types.VerifBind()
	const N = 2
	vals, p, total := types.VerifMkVals(N)
	const H, R = 7, 1
	v1, g1 := types.VerifSignedVote(0, 0, kproto.PrecommitType, H, R, verifBlockID(1))
	v2, g2 := types.VerifSignedVote(0, 0, kproto.PrecommitType, H, R, verifBlockID(2))
	v.Assume(g1 && g2)
	blockSec, blockNs := int64(1600000000), int64(500000000)
	blockTime := time.Unix(blockSec, blockNs).UTC()
	sec := blockSec + int64(v.Choice("second-offset", 3)) - 1
	ns := v.I64("nanoseconds")
	v.Assume(ns >= 0 && ns < 1000000000)
	evTime := time.Unix(sec, ns).UTC()
	ev := &types.DuplicateVoteEvidence{VoteA: v1, VoteB: v2, TotalVotingPower: total, ValidatorPower: p[0], Timestamp: evTime}
	have := v.Bool("block-known")
	ageBlocks := int64(v.Choice("age-blocks", 4)) // state height = H + ageBlocks
	ageSecs := int64(v.Choice("age-seconds", 4))
	st := cstate.LatestBlockState{ChainID: types.VerifChain, LastBlockHeight: uint64(H + ageBlocks), LastBlockTime: blockTime.Add(time.Duration(ageSecs) * time.Second)}
	st.ConsensusParams.Evidence.MaxAgeNumBlocks = 1
	st.ConsensusParams.Evidence.MaxAgeDuration = 1 * time.Second
	pool := &Pool{blockStore: verifBlockStore{metaTime: blockTime, have: have}, stateDB: verifStateStore{vals}, state: st}
	err := pool.verify(ev)
	sameTime := sec == blockSec && ns == blockNs
	expired := ageSecs > 1 && ageBlocks > 1
	want := have && sameTime && !expired
	if want {
		v.Assert(err == nil, "C19.pool.valid-evidence-refused")
		v.Cover("accepted")
	} else {
		v.Assert(err != nil, "C19.pool.evidence-accepted-with-wrong-time-age-or-unknown-block")
		v.Cover("refused")
	}
	if have && !sameTime && sec == blockSec {
		v.Cover("same-second-other-nanosecond")
	}
	if expired {
		v.Cover("expired")
	}
}

// ---- E5: the pool's life cycle: pending -> proposed -> committed, never twice ---------------------

// VerifC19_E5: two pieces of genuine evidence (different validators) and a sequence of K pool
// operations: AddEvidence (from a peer), AddEvidenceFromConsensus, CheckEvidence of a proposed
// block's list (one item, both items, the same item twice), Update after a block that commits
// some of it. A reference keeps the pending and committed sets. After every step: the evidence
// the pool offers for proposal is exactly the pending set (so it is proposed until committed and
// not afterwards), a block list is accepted iff it has no duplicate and nothing committed, and
// committed evidence never becomes pending again through a peer.
func VerifC19_E5(v *VerifV) {
	types.VerifBind()
	// concrete powers: the evidence is stored in its wire form, whose length depends on them
	p := []int64{10, 20}
	total := int64(30)
	vals := &types.ValidatorSet{Validators: []*types.Validator{{Address: types.VerifAddr(0), VotingPower: 10}, {Address: types.VerifAddr(1), VotingPower: 20}}}
	const H, R = 7, 1
	blockTime := time.Unix(1600000000, 0).UTC()
	mk := func(who int) types.Evidence {
		v1, g1 := types.VerifSignedVote(who, uint32(who), kproto.PrecommitType, H, R, verifBlockID(1))
		v2, g2 := types.VerifSignedVote(who, uint32(who), kproto.PrecommitType, H, R, verifBlockID(2))
		v.Assume(g1 && g2)
		return &types.DuplicateVoteEvidence{VoteA: v1, VoteB: v2, TotalVotingPower: total, ValidatorPower: p[who], Timestamp: blockTime}
	}
	evs := []types.Evidence{mk(0), mk(1)}
	st := cstate.LatestBlockState{ChainID: types.VerifChain, LastBlockHeight: H, LastBlockTime: blockTime}
	st.ConsensusParams.Evidence.MaxAgeNumBlocks = 100
	st.ConsensusParams.Evidence.MaxAgeDuration = time.Hour
	pool := &Pool{blockStore: verifBlockStore{metaTime: blockTime, have: true}, stateDB: verifStateStore{vals}, state: st,
		evidenceDB: memorydb.New(), evidenceList: clist.New(), logger: verifNopLogger{}}
	pending := map[int]bool{}
	committed := map[int]bool{}
	K := v.Param("K")
	for step := 0; step < K; step++ {
		x := v.Choice("evidence", 2)
		switch v.Choice("op", 7) {
		case 0: // from a peer
			err := pool.AddEvidence(evs[x])
			v.Assert(err == nil, "C19.pool.genuine-evidence-refused")
			if !committed[x] {
				pending[x] = true
			}
		case 1: // from consensus (the node saw the conflict itself; not after it was committed - see outside_claim)
			if committed[x] {
				return
			}
			v.Assert(pool.AddEvidenceFromConsensus(evs[x]) == nil, "C19.pool.genuine-evidence-refused")
			pending[x] = true
		case 2: // a proposed block carrying one item
			err := pool.CheckEvidence(types.EvidenceList{evs[x]})
			v.Assert((err == nil) == !committed[x], "C19.pool.block-evidence-verdict")
			if err == nil {
				pending[x] = true
			}
			v.Cover("block-checked")
		case 3: // a proposed block carrying the same item twice
			err := pool.CheckEvidence(types.EvidenceList{evs[x], evs[x]})
			v.Assert(err != nil, "C19.pool.duplicate-evidence-in-block-accepted")
			if !committed[x] {
				pending[x] = true // the first occurrence was verified and stored before the duplicate was seen
			}
		case 6: // a proposed block repeating an item with another one in between: [x, y, x]
			y := 1 - x
			err := pool.CheckEvidence(types.EvidenceList{evs[x], evs[y], evs[x]})
			v.Assert(err != nil, "C19.pool.duplicate-evidence-in-block-accepted")
			// items are verified and stored in order until the list is refused
			if !committed[x] {
				pending[x] = true
				if !committed[y] {
					pending[y] = true
				}
			}
			v.Cover("separated-duplicate")
		case 4: // a block commits item x
			if committed[x] {
				return // a block committing it again would not have passed CheckEvidence
			}
			st.LastBlockHeight++
			st.LastBlockTime = st.LastBlockTime.Add(time.Second)
			pool.Update(st, types.EvidenceList{evs[x]})
			committed[x] = true
			delete(pending, x)
			v.Cover("committed")
		case 5: // a block without evidence
			st.LastBlockHeight++
			st.LastBlockTime = st.LastBlockTime.Add(time.Second)
			pool.Update(st, nil)
		}
		// what the pool offers for the next proposal
		offered, _ := pool.PendingEvidence(-1)
		seen := map[int]int{}
		for _, e := range offered {
			for i := range evs {
				if e.Hash() == evs[i].Hash() {
					seen[i]++
				}
			}
		}
		for i := range evs {
			v.Assert(seen[i] <= 1, "C19.pool.evidence-offered-twice")
			if committed[i] {
				v.Assert(seen[i] == 0, "C19.pool.committed-evidence-offered-again")
			} else if pending[i] {
				v.Assert(seen[i] == 1, "C19.pool.pending-evidence-not-offered")
			} else {
				v.Assert(seen[i] == 0, "C19.pool.unknown-evidence-offered")
			}
		}
		v.Assert(int(pool.Size()) == len(pending), "C19.pool.size-differs-from-pending-set")
	}
}
