package evidence

import (
	"time"

	"github.com/kardiachain/go-kardia/kai/state/cstate"
	"github.com/kardiachain/go-kardia/mainchain/genesis"
	kproto "github.com/kardiachain/go-kardia/proto/kardiachain/types"
	"github.com/kardiachain/go-kardia/types"
)

// A correct node's view of the chain for Pool.verify: block time and validator set per height.
type verifChainBlocks struct{ times map[uint64]time.Time }

func (b verifChainBlocks) LoadBlockMeta(h uint64) *types.BlockMeta {
	t, ok := b.times[h]
	if !ok {
		return nil
	}
	return &types.BlockMeta{Header: &types.Header{Height: h, Time: t}}
}
func (b verifChainBlocks) LoadBlockCommit(uint64) *types.Commit { return nil }

type verifChainStates struct {
	sets map[uint64]*types.ValidatorSet
}

func (s verifChainStates) LoadStateFromDBOrGenesisDoc(*genesis.Genesis) (cstate.LatestBlockState, error) {
	return cstate.LatestBlockState{}, nil
}
func (s verifChainStates) Load() cstate.LatestBlockState { return cstate.LatestBlockState{} }
func (s verifChainStates) Save(cstate.LatestBlockState)  {}
func (s verifChainStates) LoadValidators(h uint64) (*types.ValidatorSet, error) {
	return s.sets[h], nil
}
func (s verifChainStates) LoadConsensusParams(uint64) (kproto.ConsensusParams, error) {
	return kproto.ConsensusParams{}, nil
}
func (s verifChainStates) PruneState(from, to uint64) (uint64, uint64, uint64) { return 0, 0, 0 }

// VerifPeerVerify runs the real Pool.verify of a node whose chain has the given block times and
// validator sets and whose latest state is st.
func VerifPeerVerify(ev types.Evidence, times map[uint64]time.Time, sets map[uint64]*types.ValidatorSet, st cstate.LatestBlockState) error {
	pool := &Pool{blockStore: verifChainBlocks{times}, stateDB: verifChainStates{sets}, state: st}
	return pool.verify(ev)
}
